"""pyvc interpreter: symbolic execution of the real Python AST (DESIGN 2.2).

Paths are explored by re-execution: a path is the list of decisions taken at symbolic branch
points; `run` re-runs the thunk once per path.  Every path ends normally (value) or exceptionally
(exception class name).  An AST construct outside the supported subset raises OutOfSubset - a
function is never silently approximated.
"""
from __future__ import annotations

import ast
import itertools

import z3

from .values import (
    FSet,
    HashVal,
    MSet,
    NotImpl,
    OI,
    And_,
    B,
    Ite_,
    Not_,
    Or_,
    is_sym,
    oi_of,
    truthy,
    veq,
)
from .world import ClassInfo, ModuleInfo, World


class OutOfSubset(Exception):
    pass


class Fork(Exception):
    pass


class PyRaise(Exception):
    def __init__(self, exc, msg=""):
        self.exc = exc
        self.msg = msg

    def __repr__(self):
        return f"PyRaise({self.exc})"


class _Return(Exception):
    def __init__(self, v):
        self.v = v


class _Break(Exception):
    pass


class _Continue(Exception):
    pass


class LoopStepDone(Exception):
    """the generic iteration of an invariant-annotated loop has been executed: the path ends here"""


EXC_PARENTS = {
    "KeyError": "LookupError",
    "IndexError": "LookupError",
    "LookupError": "Exception",
    "ValueError": "Exception",
    "TypeError": "Exception",
    "AssertionError": "Exception",
    "RuntimeError": "Exception",
    "NotImplementedError": "RuntimeError",
    "StopIteration": "Exception",
    "AttributeError": "Exception",
    "ZeroDivisionError": "ArithmeticError",
    "ArithmeticError": "Exception",
    "Exception": "BaseException",
}


def exc_isinstance(exc, cls):
    while exc is not None:
        if exc == cls:
            return True
        exc = EXC_PARENTS.get(exc)
    return False


class Obj:
    _n = 0

    def __init__(self, cls: ClassInfo, fields=None):
        self.cls = cls
        self.fields = dict(fields or {})

    def __repr__(self):
        return f"<{self.cls.name} obj>"


class ClassRef:
    def __init__(self, cls: ClassInfo):
        self.cls = cls

    def __eq__(self, o):
        return isinstance(o, ClassRef) and o.cls is self.cls

    def __hash__(self):
        return hash(self.cls.name)


class FuncRef:
    def __init__(self, module: ModuleInfo, node, defcls=None):
        self.module = module
        self.node = node
        self.defcls = defcls


class BoundMethod:
    def __init__(self, obj, node, defcls: ClassInfo):
        self.obj = obj
        self.node = node
        self.defcls = defcls


class SuperProxy:
    def __init__(self, obj, after: ClassInfo, start_cls: ClassInfo):
        self.obj = obj
        self.after = after
        self.start_cls = start_cls


class Builtin:
    def __init__(self, name, fn):
        self.name = name
        self.fn = fn


class BuiltinExcClass:
    def __init__(self, name):
        self.name = name


class ExcValue:
    def __init__(self, exc, msg=""):
        self.exc = exc
        self.msg = msg


class Frame:
    def __init__(self, module, env, defcls=None, self_obj=None, func=None):
        self.module = module
        self.env = env
        self.defcls = defcls
        self.self_obj = self_obj
        self.func = func


class Path:
    def __init__(self, pc, outcome, handles, assumptions, asserts):
        self.pc = pc
        self.outcome = outcome  # ("ret", v) | ("raise", excname)
        self.handles = handles
        self.assumptions = assumptions
        self.asserts = asserts  # [(name, formula)] intermediate proof obligations (loop invariants, callee pre)


class Interp:
    def __init__(self, world: World, contracts=None, max_paths=20000):
        self.world = world
        self.contracts = contracts or {}
        self.max_paths = max_paths
        self.builtins = dict(DEFAULT_BUILTINS)
        self.type_methods = []  # [(predicate, handler(interp, value, attr) -> value | NotHandled)]
        self.name_hooks = []  # [fn(interp, frame, name) -> value | NotHandled]
        self.call_hooks = [_closure_call_hook]  # [fn(interp, callee, args, kwargs) -> value | NotHandled]
        self.setattr_hooks = []  # [fn(interp, obj, attr, value) -> value]
        self.prune = None  # optional fn(interp, cond) -> True/False/None (feasibility pruning)
        # per path
        self.dec = []
        self.pos = 0
        self.pc = []
        self.assumptions = []
        self.asserts = []
        self.fresh_n = 0
        self.frames = []
        self.state = {}  # engine specific per-path state (heap...)

    # ------------------------------------------------------------------ paths
    def run(self, thunk):
        """thunk(interp) -> (callable_performing_the_call, handles).  Returns list[Path]."""
        results = []
        work = [[]]
        n = 0
        while work:
            decisions = work.pop()
            n += 1
            if n > self.max_paths:
                raise OutOfSubset("path explosion")
            self.dec = list(decisions)
            self.pos = 0
            self.pc = []
            self.assumptions = []
            self.asserts = []
            self.fresh_n = 0
            self.frames = []
            self.state = {}
            try:
                handles = {}
                try:
                    v = thunk(self, handles)
                    out = ("ret", v)
                except PyRaise as r:
                    out = ("raise", r.exc)
                except LoopStepDone:
                    out = ("loopstep", None)
                results.append(Path(list(self.pc), out, handles, list(self.assumptions), list(self.asserts)))
            except Fork:
                base = list(self.dec[: self.pos])  # includes decisions forced by pruning on this run
                work.append(base + [False])
                work.append(base + [True])
        return results

    def fresh(self, prefix, sort=None):
        self.fresh_n += 1
        name = f"{prefix}!{self.fresh_n}"
        if sort is None or sort == "int":
            return z3.Int(name)
        if sort == "bool":
            return z3.Bool(name)
        return z3.Const(name, sort)

    def assume(self, f):
        if f is True:
            return
        self.assumptions.append(B(f))

    def oblige(self, name, f):
        """An intermediate proof obligation that must hold on this path (under pc + assumptions
        collected so far)."""
        self.asserts.append((name, list(self.pc), list(self.assumptions), B(f)))

    def fresh_id(self):
        self.fresh_n += 1
        return self.fresh_n

    def truth(self, v):
        """Python truth value incl. __bool__/__len__ of repository objects"""
        if isinstance(v, Obj):
            c, m = v.cls.find("__bool__")
            if m is None:
                c, m = v.cls.find("__len__")
            if m is not None and m[0] == "method":
                v = self.call_function(c.module, m[1], [v], {}, c, v)
        return truthy(v)

    def decide(self, cond):
        cond = self.truth(cond)
        if isinstance(cond, bool):
            return cond
        cond = z3.simplify(cond)
        if z3.is_true(cond):
            return True
        if z3.is_false(cond):
            return False
        if self.state.get("generic_depth"):
            # generic iteration of a summarised comprehension: a branch must be settled by what is known about a generic
            # element (nothing is recorded: the facts about the generic element are local to the summarisation)
            r = self.prune(self, cond) if self.prune is not None else None
            if r is None:
                raise OutOfSubset(f"branch on the generic element of a summarised comprehension: {str(cond)[:160]}")
            return r
        if self.pos < len(self.dec):
            d = self.dec[self.pos]
            self.pos += 1
            self.pc.append(cond if d else z3.Not(cond))
            return d
        if self.prune is not None:
            r = self.prune(self, cond)
            if r is not None:
                # forced decision: record it so that re-execution stays aligned
                self.dec.append(r)
                self.pos += 1
                self.pc.append(cond if r else z3.Not(cond))
                return r
        raise Fork()

    # ------------------------------------------------------------------ calls
    def call_function(self, module, node, args, kwargs, defcls=None, self_obj=None):
        env = self.bind_args(node, args, kwargs, module)
        fr = Frame(module, env, defcls, self_obj, node)
        self.frames.append(fr)
        if len(self.frames) > 60:
            raise OutOfSubset("recursion depth")
        try:
            try:
                self.block(node.body, fr)
            except _Return as r:
                return r.v
            return None
        finally:
            self.frames.pop()

    def bind_args(self, node, args, kwargs, module):
        a = node.args
        env = {}
        params = [p.arg for p in a.posonlyargs + a.args]
        args = list(args)
        kwargs = dict(kwargs)
        star_kw = kwargs.pop("**", None)  # symbolic **mapping supplied by an engine
        if len(args) > len(params) and a.vararg is None:
            raise PyRaise("TypeError", "too many positional arguments")
        for p, v in zip(params, args):
            env[p] = v
        if a.vararg is not None:
            env[a.vararg.arg] = tuple(args[len(params) :])
        defaults = a.defaults
        dparams = params[len(params) - len(defaults) :] if defaults else []
        fr = Frame(module, {}, None, None)
        for p in params[len(args) :]:
            if p in kwargs:
                env[p] = kwargs.pop(p)
            elif star_kw is not None and self.decide(star_kw.sym_contains(self, KeyStr(p))):
                env[p] = star_kw.sym_getitem(self, KeyStr(p))
                star_kw = star_kw.without(self, KeyStr(p))
            elif p in dparams:
                env[p] = self.ev(defaults[dparams.index(p)], fr)
            else:
                raise PyRaise("TypeError", f"missing argument {p}")
        for p, d in zip(a.kwonlyargs, a.kw_defaults):
            if p.arg in kwargs:
                env[p.arg] = kwargs.pop(p.arg)
            elif d is not None:
                env[p.arg] = self.ev(d, fr)
            else:
                raise PyRaise("TypeError", f"missing kw-only argument {p.arg}")
        if a.kwarg is not None:
            if star_kw is not None:
                # the callee always receives a NEW dict
                env[a.kwarg.arg] = star_kw.with_items(self, kwargs)
            else:
                mk = self.builtins.get("__mk_kwargs__")
                env[a.kwarg.arg] = mk.fn(self, kwargs) if mk else dict(kwargs)
        elif kwargs or star_kw is not None:
            if kwargs:
                raise PyRaise("TypeError", f"unexpected keyword {list(kwargs)}")
            # a symbolic ** mapping passed to a function without **kwargs: only fine if empty
            raise OutOfSubset("** mapping passed to a function without **kwargs")
        return env

    def call_value(self, f, args, kwargs):
        for h in self.call_hooks:
            r = h(self, f, args, kwargs)
            if r is not NotHandled:
                return r
        if isinstance(f, Builtin):
            return f.fn(self, *args, **kwargs)
        if isinstance(f, BoundMethod):
            key = (f.defcls.module.relpath, f"{f.defcls.name}.{f.node.name}")
            if key in self.contracts:
                return self.contracts[key](self, f.obj, args, kwargs)
            return self.call_function(f.defcls.module, f.node, [f.obj] + list(args), kwargs, f.defcls, f.obj)
        if isinstance(f, FuncRef):
            key = (f.module.relpath, f.node.name)
            if key in self.contracts:
                return self.contracts[key](self, None, args, kwargs)
            return self.call_function(f.module, f.node, args, kwargs, f.defcls)
        if hasattr(f, "sym_call"):
            return f.sym_call(self, args, kwargs)
        if isinstance(f, ClassRef):
            return self.instantiate(f.cls, args, kwargs)
        if isinstance(f, BuiltinExcClass):
            return ExcValue(f.name, args[0] if args else "")
        if callable(f) and getattr(f, "_pyvc_native", False):
            return f(self, *args, **kwargs)
        raise OutOfSubset(f"call of {f!r}")

    def instantiate(self, cls: ClassInfo, args, kwargs):
        mk = self.builtins.get("__instantiate__")
        if mk is not None:
            r = mk.fn(self, cls, args, kwargs)
            if r is not NotHandled:
                return r
        o = Obj(cls)
        c, m = cls.find("__init__")
        if m is not None:
            self.call_function(c.module, m[1], [o] + list(args), kwargs, c, o)
        return o

    # ------------------------------------------------------------------ statements
    def block(self, stmts, fr):
        for s in stmts:
            self.stmt(s, fr)

    def stmt(self, s, fr):
        m = getattr(self, "s_" + type(s).__name__, None)
        if m is None:
            raise OutOfSubset(f"statement {type(s).__name__} at line {s.lineno}")
        return m(s, fr)

    def s_Return(self, s, fr):
        raise _Return(self.ev(s.value, fr) if s.value is not None else None)

    def s_Pass(self, s, fr):
        pass

    def s_Expr(self, s, fr):
        if isinstance(s.value, ast.Constant):
            return  # docstring / Ellipsis
        self.ev(s.value, fr)

    def s_If(self, s, fr):
        if self.decide(self.ev(s.test, fr)):
            self.block(s.body, fr)
        else:
            self.block(s.orelse, fr)

    def s_Assign(self, s, fr):
        v = self.ev(s.value, fr)
        for t in s.targets:
            self.assign(t, v, fr)

    def s_AnnAssign(self, s, fr):
        if s.value is not None:
            self.assign(s.target, self.ev(s.value, fr), fr)

    def s_AugAssign(self, s, fr):
        cur = self.ev(_load(s.target), fr)
        rhs = self.ev(s.value, fr)
        if hasattr(cur, "sym_iop"):
            r = cur.sym_iop(self, type(s.op).__name__, rhs)
            if r is not NotHandled:
                self.assign(s.target, r, fr)
                return
        self.assign(s.target, self.binop(s.op, cur, rhs), fr)

    def s_Raise(self, s, fr):
        if s.exc is None:
            raise OutOfSubset("bare raise")
        v = self.ev(s.exc, fr)
        if isinstance(v, ExcValue):
            raise PyRaise(v.exc, v.msg)
        if isinstance(v, BuiltinExcClass):
            raise PyRaise(v.name)
        raise OutOfSubset("raise of non-exception")

    def s_Assert(self, s, fr):
        if not self.decide(self.ev(s.test, fr)):
            raise PyRaise("AssertionError")

    def s_Delete(self, s, fr):
        for t in s.targets:
            if isinstance(t, ast.Subscript):
                o = self.ev(t.value, fr)
                k = self.ev(t.slice, fr)
                self.delitem(o, k)
            elif isinstance(t, ast.Name):
                del fr.env[t.id]
            else:
                raise OutOfSubset("del target")

    def s_Try(self, s, fr):
        if s.finalbody or s.orelse:
            raise OutOfSubset("try/finally/else")
        try:
            self.block(s.body, fr)
        except PyRaise as r:
            for h in s.handlers:
                names = []
                if h.type is None:
                    names = ["BaseException"]
                elif isinstance(h.type, ast.Name):
                    names = [h.type.id]
                elif isinstance(h.type, ast.Tuple):
                    names = [e.id for e in h.type.elts]
                if any(exc_isinstance(r.exc, n) for n in names):
                    if h.name:
                        fr.env[h.name] = ExcValue(r.exc, r.msg)
                    self.block(h.body, fr)
                    return
            raise

    def s_With(self, s, fr):
        # only `with np.errstate(...)` (no-op) is in the subset
        for item in s.items:
            ce = item.context_expr
            ok = (
                isinstance(ce, ast.Call)
                and isinstance(ce.func, ast.Attribute)
                and ce.func.attr == "errstate"
            )
            if not ok:
                raise OutOfSubset("with statement")
        self.block(s.body, fr)

    def s_For(self, s, fr):
        it = self.ev(s.iter, fr)
        hook = self.builtins.get("__for__")
        if hook is not None:
            r = hook.fn(self, s, fr, it)
            if r is not NotHandled:
                return r
        if hasattr(it, "sym_for"):
            return it.sym_for(self, s, fr)
        items = self.iterate(it)
        broke = False
        for x in items:
            self.assign(s.target, x, fr)
            try:
                self.block(s.body, fr)
            except _Break:
                broke = True
                break
            except _Continue:
                continue
        if not broke:
            self.block(s.orelse, fr)

    def s_While(self, s, fr):
        hook = self.builtins.get("__while__")
        if hook is not None:
            r = hook.fn(self, s, fr)
            if r is not NotHandled:
                return
        n = 0
        while self.decide(self.ev(s.test, fr)):
            n += 1
            if n > 10000:
                raise OutOfSubset("unbounded while loop without invariant")
            try:
                self.block(s.body, fr)
            except _Break:
                return
            except _Continue:
                continue
        self.block(s.orelse, fr)

    def s_Break(self, s, fr):
        raise _Break()

    def s_Continue(self, s, fr):
        raise _Continue()

    def s_Import(self, s, fr):
        for a in s.names:
            fr.env[a.asname or a.name] = ModuleRef(a.name)

    def s_ImportFrom(self, s, fr):
        from .world import MODULES

        for a in s.names:
            rel = MODULES.get(s.module)
            if rel is None:
                fr.env[a.asname or a.name] = self.lookup_global_name(fr, a.name)
                continue
            m = self.world.module(rel)
            fr.env[a.asname or a.name] = self.module_attr(m, a.name)

    def s_FunctionDef(self, s, fr):
        fr.env[s.name] = Closure(self, s, fr)

    def assign(self, t, v, fr):
        if isinstance(t, ast.Name):
            fr.env[t.id] = v
        elif isinstance(t, (ast.Tuple, ast.List)):
            if any(isinstance(e, ast.Starred) for e in t.elts):
                items = self.iterate(v)
                si = [i for i, e in enumerate(t.elts) if isinstance(e, ast.Starred)][0]
                n_after = len(t.elts) - si - 1
                if len(items) < len(t.elts) - 1:
                    raise PyRaise("ValueError", "not enough values to unpack")
                for e, x in zip(t.elts[:si], items[:si]):
                    self.assign(e, x, fr)
                self.assign(t.elts[si].value, list(items[si : len(items) - n_after]), fr)
                for e, x in zip(t.elts[si + 1 :], items[len(items) - n_after :]):
                    self.assign(e, x, fr)
                return
            if hasattr(v, "sym_unpack"):
                items = v.sym_unpack(self, len(t.elts))
            else:
                items = self.iterate(v)
            if len(items) != len(t.elts):
                raise PyRaise("ValueError", "unpack length mismatch")
            for e, x in zip(t.elts, items):
                self.assign(e, x, fr)
        elif isinstance(t, ast.Attribute):
            o = self.ev(t.value, fr)
            self.setattr(o, t.attr, v)
        elif isinstance(t, ast.Subscript):
            o = self.ev(t.value, fr)
            k = self.ev(t.slice, fr)
            self.setitem(o, k, v)
        else:
            raise OutOfSubset(f"assign target {type(t).__name__}")

    # ------------------------------------------------------------------ object protocol
    def setattr(self, o, attr, v):
        for h in self.setattr_hooks:
            v = h(self, o, attr, v)
        if isinstance(o, Obj):
            o.fields[attr] = v
            return
        if hasattr(o, "sym_setattr"):
            return o.sym_setattr(self, attr, v)
        raise OutOfSubset(f"setattr on {type(o).__name__}")

    def getattr(self, o, attr):
        for pred, h in self.type_methods:
            if pred(o):
                r = h(self, o, attr)
                if r is not NotHandled:
                    return r
        if isinstance(o, Obj):
            if attr in o.fields:
                return o.fields[attr]
            cands = getattr(o, "candidates", None)
            if cands and len(cands) > 1 and attr == "__class__" and hasattr(o, "lazy_class"):
                return o.lazy_class(self)
            if cands and len(cands) > 1:
                # class not decided yet: fine as long as every candidate class resolves attr to the same source text
                found = [self.world.cls(c).find(attr) for c in cands]
                same = all(f[1] is not None and f[1][0] == "method" for f in found) and len({ast.dump(f[1][1]) for f in found}) == 1
                kinds = {(attr in f[0].properties, attr in f[0].classmethods) for f in found if f[0] is not None}
                if not same or len(kinds) != 1:
                    from .heap import resolve_descr_class

                    resolve_descr_class(self, o)
            if attr == "__class__":
                return ClassRef(o.cls)
            c, m = o.cls.find(attr)
            if m is None:
                raise PyRaise("AttributeError", attr)
            if m[0] == "const":
                return m[1]
            if attr in c.properties:
                return self.call_function(c.module, m[1], [o], {}, c, o)
            if attr in c.classmethods:
                return BoundMethod(ClassRef(o.cls), m[1], c)
            if attr in c.staticmethods:
                return FuncRef(c.module, m[1], c)
            return BoundMethod(o, m[1], c)
        if isinstance(o, ClassRef):
            if attr == "__name__":
                return o.cls.name
            c, m = o.cls.find(attr)
            if m is None:
                raise PyRaise("AttributeError", attr)
            if m[0] == "const":
                return m[1]
            if attr in c.classmethods:
                return BoundMethod(o, m[1], c)
            return FuncRef(c.module, m[1], c)
        if isinstance(o, SuperProxy):
            c, m = o.start_cls.find(attr, after=o.after)
            if m is None:
                raise PyRaise("AttributeError", attr)
            if attr in c.properties:
                return self.call_function(c.module, m[1], [o.obj], {}, c, o.obj)
            return BoundMethod(o.obj, m[1], c)
        if isinstance(o, ModuleRef):
            return self.module_ref_attr(o, attr)
        if hasattr(o, "sym_getattr"):
            r = o.sym_getattr(self, attr)
            if r is not NotHandled:
                return r
        r = native_attr(self, o, attr)
        if r is not NotHandled:
            return r
        raise OutOfSubset(f"attribute {attr} of {type(o).__name__}")

    def getitem(self, o, k):
        if hasattr(o, "sym_getitem"):
            return o.sym_getitem(self, k)
        if isinstance(o, (tuple, list, str, range)):
            if isinstance(k, slice):
                return o[k]
            if is_sym(k):
                # symbolic index into a concrete sequence: case split
                n = len(o)
                for i in range(n):
                    if self.decide(Or_(k == i, k == i - n)):
                        return o[i]
                raise PyRaise("IndexError")
            if isinstance(k, bool):
                k = int(k)
            if not isinstance(k, int):
                raise PyRaise("TypeError", "index")
            if k >= len(o) or k < -len(o):
                raise PyRaise("IndexError")
            return o[k]
        if isinstance(o, dict):
            for kk, vv in o.items():
                if self.decide(veq(kk, k)):
                    return vv
            raise PyRaise("KeyError")
        raise OutOfSubset(f"subscript of {type(o).__name__}")

    def setitem(self, o, k, v):
        if hasattr(o, "sym_setitem"):
            return o.sym_setitem(self, k, v)
        if isinstance(o, list):
            if is_sym(k):
                raise OutOfSubset("symbolic list index store")
            o[k] = v
            return
        if isinstance(o, dict):
            for kk in list(o):
                if self.decide(veq(kk, k)):
                    o[kk] = v
                    return
            o[k] = v
            return
        raise OutOfSubset(f"item store on {type(o).__name__}")

    def delitem(self, o, k):
        if hasattr(o, "sym_delitem"):
            return o.sym_delitem(self, k)
        if isinstance(o, dict):
            for kk in list(o):
                if self.decide(veq(kk, k)):
                    del o[kk]
                    return
            raise PyRaise("KeyError")
        raise OutOfSubset(f"del item on {type(o).__name__}")

    def contains(self, container, x):
        if hasattr(container, "sym_contains"):
            return container.sym_contains(self, x)
        if isinstance(container, FSet):
            return container.contains(x)
        if isinstance(container, (tuple, list)):
            return Or_(*[veq(e, x) for e in container])
        if isinstance(container, dict):
            return Or_(*[veq(e, x) for e in container])
        if isinstance(container, range) and not is_sym(x):
            return x in container
        if isinstance(container, (set, frozenset)):
            return Or_(*[veq(e, x) for e in container])
        if isinstance(container, GenIter):
            return Or_(*[veq(e, x) for e in container.take_all()])
        raise OutOfSubset(f"`in` on {type(container).__name__}")

    def iterate(self, it):
        """-> python list of items (finite, structure concrete)"""
        if hasattr(it, "sym_iter"):
            return it.sym_iter(self)
        if isinstance(it, (list, tuple, range, str)):
            return list(it)
        if isinstance(it, dict):
            return list(it.keys())
        if isinstance(it, (set, frozenset)):
            return sorted(it, key=repr)
        if isinstance(it, FSet):
            # iteration over a finite-candidate set: members only; duplicates must be resolved
            out = []
            for i, (e, g) in enumerate(zip(it.elems, it.guards)):
                dup = Or_(*[And_(g2, veq(e2, e)) for e2, g2 in list(zip(it.elems, it.guards))[:i]])
                if self.decide(And_(g, Not_(dup))):
                    out.append(e)
            return out
        if isinstance(it, GenIter):
            return it.take_all()
        raise OutOfSubset(f"iteration over {type(it).__name__}")

    # ------------------------------------------------------------------ expressions
    def ev(self, e, fr):
        m = getattr(self, "e_" + type(e).__name__, None)
        if m is None:
            raise OutOfSubset(f"expression {type(e).__name__} at line {getattr(e, 'lineno', '?')}")
        return m(e, fr)

    def e_Constant(self, e, fr):
        return e.value

    def e_Name(self, e, fr):
        if e.id in fr.env:
            return fr.env[e.id]
        return self.lookup_global_name(fr, e.id)

    def lookup_global_name(self, fr, name):
        for h in self.name_hooks:
            r = h(self, fr, name)
            if r is not NotHandled:
                return r
        m = fr.module
        if m is not None:
            r = self.module_attr(m, name, soft=True)
            if r is not NotHandled:
                return r
        if name in self.builtins:
            return self.builtins[name]
        if name in EXC_PARENTS or name in ("BaseException",):
            return BuiltinExcClass(name)
        if name == "NotImplemented":
            return NotImpl
        raise OutOfSubset(f"name {name}")

    def module_attr(self, m: ModuleInfo, name, soft=False):
        if name in m.functions:
            return FuncRef(m, m.functions[name])
        if name in m.classes:
            return ClassRef(m.classes[name])
        if name in m.assigns:
            node = m.assigns[name]
            try:
                return ast.literal_eval(node)
            except Exception:
                pass
            # type aliases such as `Bond: TypeAlias = frozenset[AtomId]`
            if isinstance(node, ast.Subscript) and isinstance(node.value, ast.Name) and node.value.id in self.builtins:
                return self.builtins[node.value.id]
            if isinstance(node, ast.Name):
                if node.id in self.builtins:
                    return self.builtins[node.id]
                return self.module_attr(m, node.id, soft)
            key = (m.relpath, name)
            if key in self.builtins:
                return self.builtins[key]
            if isinstance(node, (ast.Dict, ast.Tuple, ast.List)):
                # a module-level table of names / constants (e.g. STEREO_CLASSES): evaluated in the module's scope
                try:
                    return self.ev(node, Frame(m, {}))
                except OutOfSubset:
                    pass
            if soft:
                return NotHandled
            raise OutOfSubset(f"module constant {name}")
        if name in m.imports:
            mm, orig = self.world.resolve_import(m, name)
            if mm is not None:
                return self.module_attr(mm, orig, soft)
            dotted, orig = m.imports[name]
            key = f"{dotted}.{orig}" if orig else dotted
            if key in self.builtins:
                return self.builtins[key]
            if orig is None:
                return ModuleRef(dotted)
            if orig in self.builtins:
                return self.builtins[orig]
        if soft:
            return NotHandled
        raise OutOfSubset(f"module attribute {name}")

    def module_ref_attr(self, o, attr):
        key = f"{o.name}.{attr}"
        if key in self.builtins:
            return self.builtins[key]
        raise OutOfSubset(f"{key}")

    def e_Tuple(self, e, fr):
        out = []
        for x in e.elts:
            if isinstance(x, ast.Starred):
                out.extend(self.iterate(self.ev(x.value, fr)))
            else:
                out.append(self.ev(x, fr))
        return tuple(out)

    def e_List(self, e, fr):
        return list(self.e_Tuple(e, fr))

    def e_Set(self, e, fr):
        mk = self.builtins.get("__mk_set__")
        items = list(self.e_Tuple(e, fr))
        if mk is not None:
            return mk.fn(self, items)
        return FSet(items)

    def e_Dict(self, e, fr):
        mk = self.builtins.get("__mk_dict__")
        pairs = []
        for k, v in zip(e.keys, e.values):
            if k is None:
                pairs.append(("**", self.ev(v, fr)))
            else:
                pairs.append((self.ev(k, fr), self.ev(v, fr)))
        if mk is not None:
            r = mk.fn(self, pairs)
            if r is not NotHandled:
                return r
        d = {}
        for k, v in pairs:
            if k == "**":
                if isinstance(v, dict):
                    d.update(v)
                else:
                    raise OutOfSubset("** of symbolic mapping in dict display")
            else:
                self.setitem(d, k, v)
        return d

    def e_Attribute(self, e, fr):
        return self.getattr(self.ev(e.value, fr), e.attr)

    def e_Subscript(self, e, fr):
        o = self.ev(e.value, fr)
        if isinstance(o, (ClassRef, Builtin)) and not hasattr(o, "sym_getitem"):
            return o  # Generic alias  ChangeDict[AtomStereo]  -> ChangeDict
        return self.getitem(o, self.ev(e.slice, fr))

    def e_Slice(self, e, fr):
        f = lambda x: None if x is None else self.ev(x, fr)  # noqa
        return slice(f(e.lower), f(e.upper), f(e.step))

    def e_UnaryOp(self, e, fr):
        v = self.ev(e.operand, fr)
        if isinstance(e.op, ast.Not):
            return Not_(self.truth(v))
        if isinstance(e.op, ast.USub):
            if isinstance(v, OI):
                if self.decide(v.isnone):
                    raise PyRaise("TypeError", "-None")
                v = v.val
            return -v
        if isinstance(e.op, ast.UAdd):
            return v
        raise OutOfSubset("unary op")

    def e_BinOp(self, e, fr):
        return self.binop(e.op, self.ev(e.left, fr), self.ev(e.right, fr))

    def binop(self, op, l, r):
        if hasattr(l, "sym_binop"):
            x = l.sym_binop(self, type(op).__name__, r)
            if x is not NotHandled:
                return x
        if hasattr(r, "sym_rbinop"):
            x = r.sym_rbinop(self, type(op).__name__, l)
            if x is not NotHandled:
                return x
        if isinstance(l, OI):
            if self.decide(l.isnone):
                raise PyRaise("TypeError", "None in arithmetic")
            l = l.val
        if isinstance(r, OI):
            if self.decide(r.isnone):
                raise PyRaise("TypeError", "None in arithmetic")
            r = r.val
        if l is None or r is None:
            raise PyRaise("TypeError", "None in arithmetic")
        if isinstance(op, ast.Add):
            if isinstance(l, (tuple, list)) and type(l) is type(r):
                return l + r
            return l + r
        if isinstance(op, ast.Sub):
            return l - r
        if isinstance(op, ast.Mult):
            return l * r
        if isinstance(op, ast.FloorDiv) and not is_sym(l) and not is_sym(r):
            return l // r
        if isinstance(op, ast.Mod) and not is_sym(l) and not is_sym(r):
            return l % r
        if isinstance(op, ast.BitOr) and isinstance(l, FSet) and isinstance(r, FSet):
            return FSet(l.elems + r.elems, l.guards + r.guards)
        if isinstance(op, ast.BitOr) and isinstance(l, dict) and isinstance(r, dict):
            d = dict(l)
            for k, v in r.items():
                self.setitem(d, k, v)
            return d
        raise OutOfSubset(f"binop {type(op).__name__} on {type(l).__name__},{type(r).__name__}")

    def e_BoolOp(self, e, fr):
        is_or = isinstance(e.op, ast.Or)
        vals = e.values
        # value-returning semantics only when concretely decidable; else boolean merge or fork
        cur = None
        acc = []
        for i, x in enumerate(vals):
            v = self.ev(x, fr)
            last = i == len(vals) - 1
            t = self.truth(v)
            if isinstance(t, bool):
                if is_or and t:
                    return v if not acc else Or_(*acc, True)
                if (not is_or) and (not t):
                    return v if not acc else And_(*acc, False)
                if last:
                    if not acc:
                        return v
                    acc.append(t)
                continue
            # symbolic truth value
            if last:
                if not acc and not _is_boolish(v):
                    return v
                acc.append(t)
                break
            if all(_pure(y) for y in vals[i + 1 :]) and _is_boolish(v):
                acc.append(t)
                continue
            d = self.decide(t)
            if is_or and d:
                return v if _is_boolish(v) is False else True
            if (not is_or) and (not d):
                return v if _is_boolish(v) is False else False
        if not acc:
            return not is_or
        return Or_(*acc) if is_or else And_(*acc)

    def e_IfExp(self, e, fr):
        if self.decide(self.ev(e.test, fr)):
            return self.ev(e.body, fr)
        return self.ev(e.orelse, fr)

    def e_NamedExpr(self, e, fr):
        v = self.ev(e.value, fr)
        self.assign(e.target, v, fr)
        return v

    def e_Compare(self, e, fr):
        l = self.ev(e.left, fr)
        res = []
        for op, rn in zip(e.ops, e.comparators):
            r = self.ev(rn, fr)
            res.append(self.compare(op, l, r))
            l = r
        return And_(*res)

    def compare(self, op, l, r):
        if isinstance(op, ast.Eq):
            return self.py_eq(l, r)
        if isinstance(op, ast.NotEq):
            return Not_(self.py_eq(l, r))
        if isinstance(op, ast.Is):
            return self.py_is(l, r)
        if isinstance(op, ast.IsNot):
            return Not_(self.py_is(l, r))
        if isinstance(op, ast.In):
            return self.contains(r, l)
        if isinstance(op, ast.NotIn):
            return Not_(self.contains(r, l))
        if hasattr(l, "sym_cmp"):
            x = l.sym_cmp(self, type(op).__name__, r)
            if x is not NotHandled:
                return x
        if isinstance(l, OI) or isinstance(r, OI) or l is None or r is None:
            for x in (l, r):
                if x is None or (isinstance(x, OI) and self.decide(x.isnone)):
                    raise PyRaise("TypeError", "ordering with None")
            l = l.val if isinstance(l, OI) else l
            r = r.val if isinstance(r, OI) else r
        if isinstance(op, ast.Lt):
            return l < r
        if isinstance(op, ast.LtE):
            return l <= r
        if isinstance(op, ast.Gt):
            return l > r
        if isinstance(op, ast.GtE):
            return l >= r
        raise OutOfSubset("comparison op")

    def py_is(self, l, r):
        if l is None or r is None:
            x = r if l is None else l
            if x is None:
                return True
            if isinstance(x, OI):
                return x.isnone
            if hasattr(x, "sym_is_none"):
                return x.sym_is_none()
            return False
        if isinstance(l, bool) or isinstance(r, bool):
            # `x is True` / `x is False`
            b, x = (l, r) if isinstance(l, bool) else (r, l)
            if isinstance(x, bool):
                return x is b
            if is_sym(x) and z3.is_bool(x):
                return x if b else z3.Not(x)
            return False
        if isinstance(l, (Obj, ClassRef)) or isinstance(r, (Obj, ClassRef)):
            if isinstance(l, ClassRef) and isinstance(r, ClassRef):
                return l.cls is r.cls
            return l is r
        if hasattr(l, "sym_is"):
            return l.sym_is(self, r)
        if hasattr(r, "sym_is"):
            return r.sym_is(self, l)
        if l is NotImpl or r is NotImpl:
            return l is r
        raise OutOfSubset(f"`is` on {type(l).__name__},{type(r).__name__}")

    def py_eq(self, l, r):
        """Python `==` including __eq__ dispatch and the reflected-operand protocol."""
        if isinstance(l, Obj) or isinstance(r, Obj):
            res = NotImpl
            if isinstance(l, Obj):
                c, m = l.cls.find("__eq__")
                if m is not None:
                    res = self.call_function(c.module, m[1], [l, r], {}, c, l)
            if res is NotImpl and isinstance(r, Obj):
                c, m = r.cls.find("__eq__")
                if m is not None:
                    res = self.call_function(c.module, m[1], [r, l], {}, c, r)
            if res is NotImpl:
                return l is r
            return truthy(res)
        return veq(l, r)

    def e_Call(self, e, fr):
        # super() needs the frame
        if isinstance(e.func, ast.Name) and e.func.id == "super" and not e.args:
            if fr.defcls is None:
                raise OutOfSubset("super() outside a method")
            obj = fr.self_obj
            start = obj.cls if isinstance(obj, (Obj, ClassRef)) else getattr(obj, "cls", None)
            if start is None:
                raise OutOfSubset("super() receiver")
            return SuperProxy(obj, fr.defcls, start)
        f = self.ev(e.func, fr)
        args = []
        for a in e.args:
            if isinstance(a, ast.Starred):
                v = self.ev(a.value, fr)
                if hasattr(v, "sym_star"):
                    args.extend(v.sym_star(self))
                else:
                    args.extend(self.iterate(v))
            else:
                args.append(self.ev(a, fr))
        kwargs = {}
        for k in e.keywords:
            v = self.ev(k.value, fr)
            if k.arg is None:
                if isinstance(v, dict):
                    for kk, vv in v.items():
                        kwargs[kk.s if isinstance(kk, KeyStr) else kk] = vv
                else:
                    if "**" in kwargs:
                        raise OutOfSubset("two symbolic ** mappings")
                    kwargs["**"] = v
            else:
                kwargs[k.arg] = v
        return self.call_value(f, args, kwargs)

    def _comp(self, e, fr, emit, pre=None):
        pre = list(pre) if pre else []

        def rec(gi, env_fr):
            if gi == len(e.generators):
                emit(env_fr)
                return
            g = e.generators[gi]
            it = pre.pop(0) if (gi == 0 and pre) else self.ev(g.iter, env_fr)
            for item in self.iterate(it):
                fr2 = Frame(env_fr.module, dict(env_fr.env), env_fr.defcls, env_fr.self_obj)
                self.assign(g.target, item, fr2)
                if all(self.decide(self.ev(c, fr2)) for c in g.ifs):
                    rec(gi + 1, fr2)

        rec(0, fr)

    def e_ListComp(self, e, fr):
        hook = self.builtins.get("__comprehension__")
        if hook is not None:
            r = hook.fn(self, e, fr)
            if r is not NotHandled:
                return r
        out = []
        self._comp(e, fr, lambda f2: out.append(self.ev(e.elt, f2)))
        return out

    def e_GeneratorExp(self, e, fr):
        hook = self.builtins.get("__comprehension__")
        if hook is not None:
            r = hook.fn(self, e, fr)
            if r is not NotHandled:
                return r
        # eager evaluation: sound for generators without side effects that are fully consumed;
        # elements are evaluated lazily on first consumption (GenIter) to respect `next(gen, default)`
        return GenIter(self, e, fr)

    def e_SetComp(self, e, fr):
        hook = self.builtins.get("__comprehension__")
        if hook is not None:
            r = hook.fn(self, e, fr)
            if r is not NotHandled:
                return r
        out = []
        self._comp(e, fr, lambda f2: out.append(self.ev(e.elt, f2)))
        mk = self.builtins.get("__mk_set__")
        return mk.fn(self, out) if mk else FSet(out)

    def e_DictComp(self, e, fr):
        hook = self.builtins.get("__comprehension__")
        if hook is not None:
            r = hook.fn(self, e, fr)
            if r is not NotHandled:
                return r
        d = {}
        self._comp(e, fr, lambda f2: self.setitem(d, self.ev(e.key, f2), self.ev(e.value, f2)))
        return d

    def e_Lambda(self, e, fr):
        return Closure(self, e, fr)

    def e_JoinedStr(self, e, fr):
        return "<fstring>"

    def e_Starred(self, e, fr):
        raise OutOfSubset("starred expression")


class NotHandledType:
    def __repr__(self):
        return "NotHandled"


NotHandled = NotHandledType()


class KeyStr:
    """A string used as an attribute-dictionary key."""

    def __init__(self, s):
        self.s = s


class ModuleRef:
    def __init__(self, name):
        self.name = name


class Closure:
    _pyvc_native = False

    def __init__(self, interp, node, fr):
        self.node = node
        self.fr = fr

    def call(self, interp, args, kwargs):
        n = self.node
        if isinstance(n, ast.Lambda):
            env = dict(self.fr.env)
            env.update(interp.bind_args(n, args, kwargs, self.fr.module))
            return interp.ev(n.body, Frame(self.fr.module, env, self.fr.defcls, self.fr.self_obj))
        env = dict(self.fr.env)
        env.update(interp.bind_args(n, args, kwargs, self.fr.module))
        fr = Frame(self.fr.module, env, self.fr.defcls, self.fr.self_obj)
        interp.frames.append(fr)
        try:
            try:
                interp.block(n.body, fr)
            except _Return as r:
                return r.v
            return None
        finally:
            interp.frames.pop()


class GenIter:
    """Generator expression; evaluated on consumption (all at once)."""

    def __init__(self, interp, node, fr):
        self.interp = interp
        self.node = node
        self.fr = Frame(fr.module, dict(fr.env), fr.defcls, fr.self_obj)
        self.items = None
        self.consumed = False

    def take_all(self):
        if self.consumed:
            return []
        self.consumed = True
        out = []
        pre = [self._pre] if hasattr(self, "_pre") else None  # the iterable was already evaluated once (all / any)
        self.interp._comp(self.node, self.fr, lambda f2: out.append(self.interp.ev(self.node.elt, f2)), pre)
        return out


def _load(t):
    import copy

    t2 = copy.copy(t)
    t2.ctx = ast.Load()
    return t2


def _is_boolish(v):
    if isinstance(v, bool):
        return True
    if is_sym(v) and z3.is_bool(v):
        return True
    return False


def _pure(node):
    """conservatively: evaluating node cannot raise or have side effects"""
    if isinstance(node, (ast.Constant, ast.Name)):
        return True
    if isinstance(node, ast.Attribute):
        return isinstance(node.value, ast.Name)
    if isinstance(node, ast.UnaryOp):
        return _pure(node.operand)
    if isinstance(node, ast.BoolOp):
        return all(_pure(v) for v in node.values)
    if isinstance(node, ast.Compare):
        return (
            _pure(node.left)
            and all(_pure(c) for c in node.comparators)
            and all(isinstance(o, (ast.Eq, ast.NotEq, ast.Is, ast.IsNot, ast.In, ast.NotIn)) for o in node.ops)
        )
    return False


# ---------------------------------------------------------------------- native attributes
def native_attr(interp, o, attr):
    if isinstance(o, FSet):
        if attr == "issuperset":
            return _native(lambda it, other: _as_fset(it, other).subset_of(o))
        if attr == "issubset":
            return _native(lambda it, other: o.subset_of(_as_fset(it, other)))
        if attr == "intersection":
            def inter(it, *others):
                gs = list(o.guards)
                for other in others:
                    other = _as_fset(it, other)
                    gs = [And_(g, other.contains(e)) for e, g in zip(o.elems, gs)]
                return FSet(o.elems, gs)
            return _native(inter)
        if attr == "difference":
            def diff(it, *others):
                gs = list(o.guards)
                for other in others:
                    other = _as_fset(it, other)
                    gs = [And_(g, Not_(other.contains(e))) for e, g in zip(o.elems, gs)]
                return FSet(o.elems, gs)
            return _native(diff)
        if attr == "union":
            def union(it, *others):
                es, gs = list(o.elems), list(o.guards)
                for other in others:
                    other = _as_fset(it, other)
                    es += other.elems
                    gs += other.guards
                return FSet(es, gs)
            return _native(union)
        if attr == "add" and not o.frozen:
            def add(it, x):
                o.elems.append(x)
                o.guards.append(True)
            return _native(add)
        if attr == "update" and not o.frozen:
            def update(it, *others):
                for other in others:
                    other = _as_fset(it, other)
                    o.elems.extend(other.elems)
                    o.guards.extend(other.guards)
            return _native(update)
        if attr == "discard" and not o.frozen:
            def discard(it, x):
                o.guards[:] = [And_(g, Not_(veq(e, x))) for e, g in zip(o.elems, o.guards)]
            return _native(discard)
        if attr == "copy":
            return _native(lambda it: o.copy(frozen=False))
        if attr == "pop" and not o.frozen:
            def pop(it):
                for i, (e, g) in enumerate(zip(o.elems, o.guards)):
                    if it.decide(g):
                        x = e
                        o.guards[:] = [And_(g2, Not_(veq(e2, x))) for e2, g2 in zip(o.elems, o.guards)]
                        return x
                raise PyRaise("KeyError", "pop from an empty set")
            return _native(pop)
    if isinstance(o, MSet) and attr == "items":
        return _native(lambda it: MSetItems(o))
    if isinstance(o, list):
        if attr == "append":
            return _native(lambda it, x: o.append(x))
        if attr == "extend":
            return _native(lambda it, xs: o.extend(it.iterate(xs)))
        if attr == "copy":
            return _native(lambda it: list(o))
        if attr == "pop":
            def lpop(it, i=-1):
                if not o:
                    raise PyRaise("IndexError")
                return o.pop(i)
            return _native(lpop)
        if attr == "sort":
            raise OutOfSubset("list.sort on symbolic list")
    if isinstance(o, dict):
        if attr == "items":
            return _native(lambda it: [(k, v) for k, v in o.items()])
        if attr == "keys":
            return _native(lambda it: list(o.keys()))
        if attr == "values":
            return _native(lambda it: list(o.values()))
        if attr == "get":
            def dget(it, k, default=None):
                for kk, vv in o.items():
                    if it.decide(veq(kk, k)):
                        return vv
                return default
            return _native(dget)
        if attr == "copy":
            return _native(lambda it: dict(o))
        if attr == "update":
            def dupdate(it, other):
                for k, v in other.items():
                    it.setitem(o, k, v)
            return _native(dupdate)
        if attr == "pop":
            def dpop(it, k, *default):
                for kk in list(o):
                    if it.decide(veq(kk, k)):
                        return o.pop(kk)
                if default:
                    return default[0]
                raise PyRaise("KeyError")
            return _native(dpop)
    if isinstance(o, tuple):
        if attr == "index":
            def tindex(it, x):
                for i, e in enumerate(o):
                    if it.decide(veq(e, x)):
                        return i
                raise PyRaise("ValueError")
            return _native(tindex)
        if attr == "count":
            return _native(lambda it, x: z3.Sum([z3.If(B(veq(e, x)), 1, 0) for e in o]))
    return NotHandled


class MSetItems:
    def __init__(self, ms):
        self.ms = ms


def _native(fn):
    fn._pyvc_native = True
    return fn


def _as_fset(interp, x):
    if isinstance(x, FSet):
        return x
    return FSet(interp.iterate(x))


# ---------------------------------------------------------------------- builtins
def _b_len(it, x):
    if hasattr(x, "sym_len"):
        return x.sym_len(it)
    if isinstance(x, (tuple, list, str, dict, range)):
        return len(x)
    if isinstance(x, FSet):
        # number of distinct members
        terms = []
        for i, (e, g) in enumerate(zip(x.elems, x.guards)):
            dup = Or_(*[And_(g2, veq(e2, e)) for e2, g2 in list(zip(x.elems, x.guards))[:i]])
            terms.append(z3.If(B(And_(g, Not_(dup))), 1, 0))
        if not terms:
            return 0
        return z3.simplify(z3.Sum(terms)) if len(terms) > 1 else z3.simplify(terms[0])
    raise OutOfSubset(f"len of {type(x).__name__}")


def _b_set(it, x=None):
    mk = it.builtins.get("__mk_set__")
    if x is None:
        return mk.fn(it, []) if mk else FSet([])
    if hasattr(x, "sym_to_set"):
        return x.sym_to_set(it)
    if isinstance(x, FSet):
        return x.copy(frozen=False)
    items = it.iterate(x)
    return mk.fn(it, items) if mk else FSet(items)


def _b_frozenset(it, x=None):
    if x is None:
        return FSet([], frozen=True)
    if hasattr(x, "sym_to_frozenset"):
        return x.sym_to_frozenset(it)
    if isinstance(x, MSetItems):
        return x.ms  # frozenset of (element, count) pairs == the multiset itself
    if isinstance(x, FSet):
        return x.copy(frozen=True)
    mk = it.builtins.get("__mk_frozenset__")
    items = it.iterate(x)
    if mk is not None:
        return mk.fn(it, items)
    return FSet(items, frozen=True)


def _b_tuple(it, x=()):
    if isinstance(x, GenIter) and not x.consumed and not hasattr(x, "_pre") and len(x.node.generators) == 1 and not x.node.generators[0].ifs:
        g = x.node.generators[0]
        src = it.ev(g.iter, x.fr)
        x._pre = src
        if hasattr(src, "sym_map"):
            def f(e_):
                fr2 = Frame(x.fr.module, dict(x.fr.env), x.fr.defcls, x.fr.self_obj)
                it.assign(g.target, e_, fr2)
                return it.ev(x.node.elt, fr2)
            r = src.sym_map(it, f)
            if r is not NotHandled:
                x.consumed = True
                return r
    if hasattr(x, "sym_to_tuple"):
        return x.sym_to_tuple(it)
    return tuple(it.iterate(x))


def _b_list(it, x=()):
    if hasattr(x, "sym_to_list"):
        return x.sym_to_list(it)
    return list(it.iterate(x))


def _quantify_over_candidates(it, x):
    """all(f(e) for e in S) / any(...) over a finite-candidate set S: repetitions among the candidates cannot matter, so
    the candidates are taken one by one (guarded by their membership) instead of forking on which of them coincide"""
    if not isinstance(x, GenIter) or x.consumed or len(x.node.generators) != 1 or x.node.generators[0].ifs:
        return None
    g = x.node.generators[0]
    src = it.ev(g.iter, x.fr)
    if hasattr(src, "sym_candidates"):
        src = src.sym_candidates(it)  # the atoms of a descriptor whose class is still open: positions guarded by the class length
    if not isinstance(src, FSet):
        x._pre = src
        return None
    x.consumed = True
    out = []
    for e_, g_ in zip(src.elems, src.guards):
        fr2 = Frame(x.fr.module, dict(x.fr.env), x.fr.defcls, x.fr.self_obj)
        it.assign(g.target, e_, fr2)
        out.append((g_, truthy(it.ev(x.node.elt, fr2))))
    return out


def _b_any(it, x):
    c = _quantify_over_candidates(it, x)
    if c is not None:
        return Or_(*[And_(g, v) for g, v in c])
    return Or_(*[truthy(v) for v in it.iterate(x)])


def _b_all(it, x):
    c = _quantify_over_candidates(it, x)
    if c is not None:
        return And_(*[Or_(Not_(g), v) for g, v in c])
    return And_(*[truthy(v) for v in it.iterate(x)])


def _b_isinstance(it, o, c):
    if isinstance(c, tuple):
        return Or_(*[_b_isinstance(it, o, x) for x in c])
    if hasattr(o, "sym_isinstance"):
        r = o.sym_isinstance(it, c)
        if r is not NotHandled:
            return r
    if hasattr(c, "sym_instancecheck"):
        return c.sym_instancecheck(it, o)
    if isinstance(c, ClassRef):
        if isinstance(o, Obj):
            return o.cls.is_subclass_of(c.cls)
        return False
    if isinstance(c, Builtin):
        if c.name == "int":
            if isinstance(o, bool):
                return True
            if isinstance(o, int):
                return True
            if is_sym(o) and z3.is_int(o):
                return True
            if isinstance(o, OI):
                return Not_(o.isnone)
            return False
        if c.name == "tuple":
            return isinstance(o, tuple)
        if c.name == "list":
            return isinstance(o, list)
        if c.name == "str":
            return isinstance(o, str)
    raise OutOfSubset(f"isinstance(_, {c!r})")


def _b_hasattr(it, o, name):
    try:
        it.getattr(o, name)
        return True
    except PyRaise as r:
        if r.exc == "AttributeError":
            return False
        raise
    except OutOfSubset:
        if isinstance(o, Obj):
            return False
        if o is None or isinstance(o, (int, str, tuple, list)) or is_sym(o) or isinstance(o, OI):
            return False
        raise


def _b_type(it, x):
    if isinstance(x, Obj):
        return ClassRef(x.cls)
    raise OutOfSubset("type() of a non-object")


def _b_hash(it, x):
    return HashVal(x)


def _b_range(it, *a):
    if any(is_sym(x) for x in a):
        raise OutOfSubset("symbolic range")
    return range(*a)


def _b_permutations(it, x, r=None):
    return list(itertools.permutations(it.iterate(x), r))


def _b_combinations(it, x, r):
    return list(itertools.combinations(it.iterate(x), r))


def _b_product(it, *xs):
    return list(itertools.product(*[it.iterate(x) for x in xs]))


def _b_counter(it, x=()):
    return MSet(it.iterate(x))


def _b_zip(it, *xs):
    return list(zip(*[it.iterate(x) for x in xs]))


def _b_enumerate(it, x, start=0):
    return list(enumerate(it.iterate(x), start))


class ListIter:
    def __init__(self, items):
        self.items, self.pos = list(items), 0


def _b_iter(it, x):
    return ListIter(it.iterate(x))


def _b_next(it, g, *default):
    if isinstance(g, ListIter):
        if g.pos < len(g.items):
            g.pos += 1
            return g.items[g.pos - 1]
        if default:
            return default[0]
        raise PyRaise("StopIteration")
    if isinstance(g, GenIter):
        items = g.take_all()
        if items:
            return items[0]
        if default:
            return default[0]
        raise PyRaise("StopIteration")
    raise OutOfSubset("next() on non-generator")


def _b_int(it, x=0):
    if isinstance(x, OI):
        if it.decide(x.isnone):
            raise PyRaise("TypeError", "int(None)")
        return x.val
    if x is None:
        raise PyRaise("TypeError", "int(None)")
    if hasattr(x, "sym_int"):
        return x.sym_int(it)
    if is_sym(x):
        if z3.is_bool(x):
            return z3.If(x, 1, 0)
        return x
    return int(x)


def _b_abs(it, x):
    if is_sym(x):
        return z3.If(x >= 0, x, -x)
    return abs(x)


def _b_sorted(it, x, key=None, reverse=False):
    items = it.iterate(x)
    if all(not is_sym(i) and not isinstance(i, OI) for i in items) and key is None:
        return sorted(items, reverse=reverse)
    raise OutOfSubset("sorted on symbolic values")


def _b_minmax(which):
    def f(it, *xs, key=None, default=None):
        items = it.iterate(xs[0]) if len(xs) == 1 else list(xs)
        if key is not None:
            raise OutOfSubset("min/max with key")
        if not items:
            raise PyRaise("ValueError")
        cur = items[0]
        for v in items[1:]:
            c = (v < cur) if which == "min" else (v > cur)
            cur = Ite_(c, v, cur) if is_sym(c) else (v if c else cur)
        return cur

    return f


def _b_sum(it, x, start=0):
    items = it.iterate(x)
    r = start
    for v in items:
        r = r + v
    return r


def _b_callable_closure(it, f, args, kwargs):
    if isinstance(f, Closure):
        return f.call(it, args, kwargs)
    return NotHandled


DEFAULT_BUILTINS = {}


def _reg(name, fn):
    DEFAULT_BUILTINS[name] = Builtin(name, fn)


for _n, _f in [
    ("len", _b_len),
    ("set", _b_set),
    ("frozenset", _b_frozenset),
    ("tuple", _b_tuple),
    ("list", _b_list),
    ("any", _b_any),
    ("all", _b_all),
    ("isinstance", _b_isinstance),
    ("hasattr", _b_hasattr),
    ("hash", _b_hash),
    ("type", _b_type),
    ("range", _b_range),
    ("itertools.permutations", _b_permutations),
    ("itertools.combinations", _b_combinations),
    ("itertools.product", _b_product),
    ("collections.Counter", _b_counter),
    ("Counter", _b_counter),
    ("zip", _b_zip),
    ("enumerate", _b_enumerate),
    ("next", _b_next),
    ("iter", _b_iter),
    ("int", _b_int),
    ("abs", _b_abs),
    ("sorted", _b_sorted),
    ("min", _b_minmax("min")),
    ("max", _b_minmax("max")),
    ("sum", _b_sum),
]:
    _reg(_n, _f)


def _closure_call_hook(it, f, args, kwargs):
    if isinstance(f, Closure):
        return f.call(it, args, kwargs)
    return NotHandled
