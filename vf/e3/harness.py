"""E3: bounded evaluation of relational contracts on the real code (never counted as proved)."""
from __future__ import annotations

import time
import traceback

from ..core import DISCHARGED, ERROR, FAILED, Ob, Report
from ..spec.refmodel import Ref

PRELUDE = '''from vf.spec.refmodel import Ref, build_real, snapshot, raw_state, coherent, mk_descr, descr_of
from vf.spec.iso_spec import isomorphic, isomorphisms
def R(kind, atoms, bonds, atom_stereo=None, bond_stereo=None, atom_changes=None, bond_changes=None):
    r = Ref(kind); r.atoms = atoms
    r.bonds = {frozenset(k): v for k, v in bonds.items()}
    r.atom_stereo = atom_stereo or {}
    r.bond_stereo = {frozenset(k): v for k, v in (bond_stereo or {}).items()}
    r.atom_changes = atom_changes or {}
    r.bond_changes = {frozenset(k): v for k, v in (bond_changes or {}).items()}
    return r
'''


def ref_code(r: Ref) -> str:
    c = r.canon()
    return (f"R({c['kind']!r}, {c['atoms']!r}, {c['bonds']!r}, {c['atom_stereo']!r}, {c['bond_stereo']!r}, "
            f"{c['atom_changes']!r}, {c['bond_changes']!r})")


def replay_script(body: str) -> str:
    """body: python statements that set `ok` (True when the property holds on this case)"""
    return ("sys.path.insert(0, '/verif')\n" + PRELUDE + body + "\nprint('property holds on this case' if ok else 'VIOLATION reproduced')\nsys.exit(0 if ok else 1)\n")


class Group:
    """A named family of bounded evaluations; the first failing case becomes the witness."""

    def __init__(self, rep: Report, name: str):
        self.rep = rep
        self.name = name
        self.n = 0
        self.fail = None
        self.t = time.time()
        self.samples = []

    def case(self, ok, detail=None, replay_body=None, sample=None):
        self.n += 1
        if sample is not None and len(self.samples) < 2:
            self.samples.append(sample)
        if not ok and self.fail is None:
            self.fail = (detail or "", replay_body)
        return ok

    def failed(self):
        return self.fail is not None

    def close(self):
        if self.n == 0:
            return None
        if self.fail is None:
            ob = Ob(self.name, "bounded", DISCHARGED, "exec", time.time() - self.t, evaluations=self.n)
        else:
            d, body = self.fail
            ob = Ob(self.name, "bounded", FAILED, "exec", time.time() - self.t, evaluations=self.n, detail=d,
                    replay_code=replay_script(body) if body else None)
        self.rep.add(ob)
        if self.samples:
            self.rep.samples.extend(self.samples[:1])
        return ob


def safe(fn, default=None):
    try:
        return fn(), None
    except Exception as e:  # noqa
        return default, f"{type(e).__name__}: {e}"
