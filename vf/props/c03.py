"""C03 - hash agrees with equality and is canonical across runs.  Stated AST dataflow obligations (no seed-dependent value
reaches hash(); the multiset hash sorts first) + bounded invariance checks and PYTHONHASHSEED runs (E3).  Descriptor-level
hash/eq agreement is proved in C04."""
import time

from ..core import Report
from ..e3 import eqhash
from . import e1_hashflow


def run(tier, seed):
    t0 = time.time()
    rep = Report("C03", tier, seed)
    rep.level = "exploration"
    e1_hashflow.ob_hash_seed_free(rep)
    eqhash.run_c03(rep, tier, seed)
    rep.rule = "E3 scope of DESIGN Appendix B x renamings / insertion orders / descriptor re-spellings; sub-processes with PYTHONHASHSEED in {0,1,2,random}; distinct_nontrivial = distinct base graphs"
    rep.assumptions = ["bounded: only the enumerated scope is covered", "the five AST obligations are syntactic dataflow facts (call graph over-approximated by method name), not solver-discharged VCs"]
    return rep, t0
