"""C17 - E1 obligations on the derivation operations (vf/props/e1_derive.py: unbounded where the code is loop-free, bounded-mode
VCs where it loops) + bounded relational contracts (E3, vf/e3/derive.py)."""
import time

from ..core import Report
from ..e3 import derive
from ..par import pmap
from ..pyvc.world import World
from . import e1_derive


def run(tier, seed):
    t0 = time.time()
    rep = Report("C17", tier, seed)
    rep.level = "other"
    for obs, _ in pmap("vf.props.e1_derive", e1_derive.tasks("C17", tier, 10000 if tier == "quick" else 40000)):
        rep.obs.extend(obs)
    derive.run_c17(rep, tier, seed)
    rep.functions = e1_derive.functions(World(), "C17")
    proof = [o for o in rep.obs if o.kind == "proof"]
    e1b = [o for o in rep.obs if o.kind == "bounded" and "/bounded/" not in o.name]
    rep.rule = ("E1: one VC per (class, derivation, symbolic path, clause); E3 scope (DESIGN Appendix B): structured skeleton corpus x element/role/stereo decorations x "
                "the operation's argument space; distinct_nontrivial = distinct base graphs of the E3 part")
    rep.trusted_base = ["pyvc encoding of CPython semantics + symbolic heap (z3 arrays)", "generic-element summarisation of comprehensions (vf/pyvc/summarise.py) with its allocator contract: objects created by different iterations / allocation sites are different and new", "assumed contract of copy.deepcopy (structural copy, every mutable object fresh, modelled as a copy of the heap into a fresh reference block)", "z3 5.1 (E-matching first, model-based instantiation as the last stage; unsat from any stage discharges)"]
    rep.assumptions = ["loops are verified through side-car invariants (init / generic step / exit, iteration order arbitrary), comprehensions through generic-element summaries; termination is not proved", "callees are inlined except _StereoMixin.invert and the shared descriptor constructor, which enter through contracts discharged on their real bodies", "bounded-mode VCs (kind=bounded without '/bounded/' in the name; only the one-shot-iterator argument of subgraph): unrolled for at most K elements (K in vf/props/e1_derive.py:PLAN)", "connected components (reachability is not first-order), compose of more than two graphs and of the stereo classes are decided by the bounded part only", "E3: only the enumerated scope is covered", "descriptor objects are immutable values (no public operation mutates one)"]
    rep.explanation = (f"{len(proof)} unbounded proof obligations, {len(e1b)} bounded-mode VCs, plus the bounded relational contract groups listed in coverage.bounded_groups")
    rep.samples = [o.name for o in (proof + e1b)[:: max(1, (len(proof) + len(e1b)) // 8)]][:8]
    return rep, t0
