"""C18 - bond-order perception: bounded contract on a molecule corpus and on random connectivity (E3) + structural frame
obligations on bond_orders.py (AST dataflow, stated)."""
import time

from ..core import Report, src_info
from ..e3 import bondorders


def run(tier, seed):
    t0 = time.time()
    rep = Report("C18", tier, seed)
    rep.level = "exploration"
    bondorders.frame_obligations(rep)
    bondorders.run_c18(rep, tier, seed)
    rep.functions = [src_info("algorithms/bond_orders.py", f) for f in ("connectivity2bond_orders", "_AC2BO", "_get_BO", "_get_UA_pairs", "_get_bonds", "_get_UA")]
    rep.rule = ("corpus of neutral closed-shell molecules (connectivity from RDKit-parsed SMILES, RDKit as data provider only) x atom permutations; random symmetric 0/1 "
                "matrices over the tabulated elements; interleaved call sequences; distinct_nontrivial = distinct inputs before permutation")
    rep.assumptions = ["bounded: only the enumerated inputs are covered", "the four AST obligations are syntactic dataflow facts about bond_orders.py, not solver-discharged VCs; they are what makes the "
                       "structural clause inductive (BO starts as a copy of AC and only receives mirrored unit increments on pairs with AC[i,j]==1)",
                       "elements outside the 14 tabulated ones are outside the domain (KeyError in atomic_valence_electrons)"]
    return rep, t0
