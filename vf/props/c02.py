"""C02 - equality never lies.  E1 (proved): graphs of different classes never compare equal (12 ordered class pairs, arbitrary
graphs).  E3 (bounded): (a == b) implies a brute-force structure-preserving bijection."""
import time

from ..core import Report, src_info
from ..e3 import eqhash
from ..par import pmap
from . import e1_eq


def run(tier, seed):
    t0 = time.time()
    rep = Report("C02", tier, seed)
    rep.level = "other"
    for obs, _ in pmap("vf.props.e1_eq", e1_eq.tasks()):
        rep.obs.extend(obs)
    eqhash.run_c02(rep, tier, seed)
    rep.functions = [src_info(e1_eq.REL[c], f"{c}.__eq__") for c in e1_eq.CLASSES]
    rep.rule = "E1: symbolic execution of `a == b` (incl. the reflected-operand protocol) for every ordered pair of distinct classes; E3 scope of DESIGN Appendix B; distinct_nontrivial = distinct base graphs"
    rep.trusted_base = ["pyvc: Python's == protocol (NotImplemented on both sides -> identity), type(), MRO"]
    rep.assumptions = ["bounded: soundness of == within one class is checked against brute force on the enumerated scope only"]
    rep.explanation = "12 proof obligations (cross-class pairs); the same-class clause is bounded (coverage.bounded_groups)"
    rep.samples = [o.name for o in rep.obs if o.kind == "proof"][:6]
    return rep, t0
