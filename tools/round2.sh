#!/bin/sh
# tools/round2.sh <ID> <A|B> [check ids...]  -- confirms a round-2 seeded change from /tmp/seed2 on /repo HEAD and runs the given quick checks on it
ID="$1"; X="$2"; shift 2; D=${SEEDDIR:-/tmp/seed2}/$ID/$X
cd /repo || exit 9
git diff --quiet || { echo "repo dirty"; exit 9; }
PYTHONPATH=/repo/src /venv/bin/python $D/demo.py >/dev/null 2>&1; echo "demo_without=$?"
git apply $D/patch.diff || { echo "PATCH-DOES-NOT-APPLY"; exit 8; }
PYTHONPATH=/repo/src /venv/bin/python $D/demo.py >/dev/null 2>&1; echo "demo_with=$?"
/venv/bin/python -m pytest -q -p no:cacheprovider --timeout=900 -x 2>&1 | tail -1
cd /verif
for c in "$@"; do ./check $c quick 2>&1 | grep -E "VIOLATION|KNOWN|UNDECIDED|CHECKER|^\[" | cut -c1-260 | head -${LINES_MAX:-6}; done
cd /repo && git checkout -- . && git clean -fdq src
