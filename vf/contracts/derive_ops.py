"""Side-car contracts of the DERIVATION operations (copy, copy-constructor, relabel_atoms, subgraph, compose,
enantiomer): C10 (freshness), C11, C17, C06 and the frame 'the source is untouched'.

spec(v0, sym, cname) gives, per view component of the RESULT, the expected function of the source view.
Derivations that loop over symbolic containers run in bounded mode (kind=bounded).
"""
from __future__ import annotations

import z3

from ..pyvc import heap as H
from ..pyvc.graphmodel import d_invert, d_mentions, d_relabel, d_slot
from ..pyvc.heap import BondS, D_INTINT, DictRef, ODescrS, OIntS, heap_of, mkbond
from .graph_ops import ALL, REACTION, STEREO, ac_view, as_view, bc_view, bs_view, osome

TRUE = z3.BoolVal(True)


class Derivation:
    classes = ALL
    result_is_new = True  # C10: every mutable object of the result is fresh
    source_untouched = True

    def pre(self, v, s, cname):
        return TRUE

    def rejected(self, v, s, cname):
        return z3.BoolVal(False)

    def result_class(self, cname):
        return cname


class copy(Derivation):
    def call(self, it, g, cname):
        return ("method", "copy", [], {}), {}

    def spec(self, v, s, cname):
        return {}


class copy_constructor(Derivation):
    def call(self, it, g, cname):
        return ("construct", cname, [g], {}), {}

    def spec(self, v, s, cname):
        return {}


def sym_mapping(it, tag="m"):
    h = heap_of(it)
    r = z3.Int(f"{tag}_ref")
    it.assume(z3.And(r >= 0, r < h.A0))
    return DictRef(D_INTINT, r), r


def rho_of(h, mref):
    return lambda x: z3.If(h.d_has(D_INTINT, mref, x), h.d_get(D_INTINT, mref, x), x)


class relabel_copy(Derivation):
    """relabel_atoms(mapping, copy=True)"""

    def call(self, it, g, cname):
        m, r = sym_mapping(it)
        inv = z3.Function("inv_rho", z3.IntSort(), z3.IntSort())
        return ("method", "relabel_atoms", [m], {"copy": True}), {"m": r, "inv": inv}

    def pre(self, v, s, cname):
        # injective on the atoms (total or partial mapping, no collision with unmapped atoms); inv is its inverse there
        rho = rho_of(v.h, s["m"])
        x, y = z3.Ints("rx ry")
        return z3.And(z3.ForAll([x, y], z3.Implies(z3.And(v.atom(x), v.atom(y), rho(x) == rho(y)), x == y), patterns=[z3.MultiPattern(v.atom(x), v.atom(y))]),
                      z3.ForAll([x], z3.Implies(v.atom(x), s["inv"](rho(x)) == x), patterns=[v.atom(x)]))

    def spec(self, v, s, cname):
        rho, inv = rho_of(v.h, s["m"]), s["inv"]
        src = lambda y: inv(y)  # noqa
        is_img = lambda y: z3.And(v.atom(src(y)), rho(src(y)) == y)  # noqa
        srcb = lambda b: mkbond(src(BondS.lo(b)), src(BondS.hi(b)))  # noqa
        is_imgb = lambda b: z3.And(is_img(BondS.lo(b)), is_img(BondS.hi(b)), v.bond(srcb(b)))  # noqa
        sp = {
            "atom": is_img,
            "attr_has": lambda y, k: v.attr_has(src(y), k),
            "attr_val": lambda y, k: v.attr_val(src(y), k),
            "bond": is_imgb,
            "battr_has": lambda b, k: v.battr_has(srcb(b), k),
            "battr_val": lambda b, k: v.battr_val(srcb(b), k),
        }
        if cname in STEREO:
            sp["as"] = lambda y: z3.If(z3.And(is_img(y), v.as_has(src(y))), osome(d_relabel(v.as_val(src(y)), rho)), ODescrS.DNone)
            sp["bs"] = lambda b: z3.If(z3.And(is_img(BondS.lo(b)), is_img(BondS.hi(b)), v.bs_has(srcb(b))), osome(d_relabel(v.bs_val(srcb(b)), rho)), ODescrS.DNone)
        if cname == "StereoCondensedReactionGraph":
            def acv(y, c):
                o = ac_view(v, src(y), c)
                return z3.If(z3.And(is_img(y), ODescrS.is_DSome(o)), osome(d_relabel(ODescrS.dd(o), rho)), ODescrS.DNone)

            def bcv(b, c):
                o = bc_view(v, srcb(b), c)
                return z3.If(z3.And(is_img(BondS.lo(b)), is_img(BondS.hi(b)), ODescrS.is_DSome(o)), osome(d_relabel(ODescrS.dd(o), rho)), ODescrS.DNone)

            sp["ac"], sp["bc"] = acv, bcv
        return sp


class relabel_inplace(relabel_copy):
    """relabel_atoms(mapping, copy=False): the graph itself is returned and has the renamed views (C11: 'gives the same
    labelled graph whether done in place or into a copy' - both meet the same specification)"""
    result_is_new = False
    source_untouched = False
    result_is_self = True

    def call(self, it, g, cname):
        (kind, name, pos, kw), sym = super().call(it, g, cname)
        return (kind, name, pos, {"copy": False}), sym


class OneShot:
    """an iterable that can be traversed once (iterator / generator argument)"""

    def __init__(self, items):
        self.items = list(items)
        self.used = False

    def sym_iter(self, interp):
        if self.used:
            return []
        self.used = True
        return list(self.items)

    def sym_contains(self, interp, x):
        # `x in iterator` consumes the iterator up to the first match
        from ..pyvc.values import Or_, veq

        if self.used:
            return False
        self.used = True
        return Or_(*[veq(e, x) for e in self.items])


class subgraph(Derivation):
    """subgraph(S) for S given as a tuple or as a one-shot iterator of k <= 2 atoms of the graph"""

    def call(self, it, g, cname):
        K = it.state.get("iter_bound", 2)
        items = []
        for j in range(K):
            if not it.decide(z3.Bool(f"S_more_{j}")):
                break
            items.append(z3.Int(f"S{j}"))
        if len(items) > 1:
            it.assume(z3.Distinct(*items))
        one_shot = it.decide(z3.Bool("S_is_one_shot"))
        arg = OneShot(items) if one_shot else tuple(items)
        return ("method", "subgraph", [arg], {}), {"S": items}

    def pre(self, v, s, cname):
        return z3.And(*[v.atom(x) for x in s["S"]]) if s["S"] else TRUE

    def spec(self, v, s, cname):
        S = s["S"]
        inS = lambda x: z3.Or(*[x == e for e in S]) if S else z3.BoolVal(False)  # noqa
        inSb = lambda b: z3.And(inS(BondS.lo(b)), inS(BondS.hi(b)))  # noqa

        def inside(d):
            return z3.And(*[z3.Or(i >= _dlen(d), OIntS.is_ONone(d_slot(d, i)), inS(OIntS.ov(d_slot(d, i)))) for i in range(7)])

        sp = {"atom": lambda x: z3.And(v.atom(x), inS(x)), "bond": lambda b: z3.And(v.bond(b), inSb(b))}
        if cname in STEREO:
            sp["as"] = lambda x: z3.If(z3.And(v.as_has(x), inside(v.as_val(x))), osome(v.as_val(x)), ODescrS.DNone)
            sp["bs"] = lambda b: z3.If(z3.And(v.bs_has(b), inside(v.bs_val(b))), osome(v.bs_val(b)), ODescrS.DNone)
        if cname == "StereoCondensedReactionGraph":
            def acv(x, c):
                o = ac_view(v, x, c)
                return z3.If(z3.And(ODescrS.is_DSome(o), inside(ODescrS.dd(o))), o, ODescrS.DNone)

            def bcv(b, c):
                o = bc_view(v, b, c)
                return z3.If(z3.And(ODescrS.is_DSome(o), inside(ODescrS.dd(o))), o, ODescrS.DNone)

            sp["ac"], sp["bc"] = acv, bcv
        return sp


class subgraph_any(subgraph):
    """subgraph(S) for S a tuple of atoms of the graph of ANY length (membership array S_any; order and repetitions are
    irrelevant to the result): needs the comprehensions of subgraph summarised (vf/pyvc/summarise.py)"""

    def call(self, it, g, cname):
        S = z3.Const("S_any", z3.ArraySort(z3.IntSort(), z3.BoolSort()))
        return ("method", "subgraph", [H.SymSeq(S, z3.IntSort(), "set")], {}), {"S_arr": S}

    def pre(self, v, s, cname):
        x = z3.Int("sx")
        return z3.ForAll([x], z3.Implies(z3.Select(s["S_arr"], x), v.atom(x)), patterns=[z3.Select(s["S_arr"], x)])

    def spec(self, v, s, cname):
        s2 = dict(s)
        sp = _subgraph_spec(v, lambda x: z3.Select(s["S_arr"], x), cname)
        return sp


def _subgraph_spec(v, inS, cname):
    inSb = lambda b: z3.And(inS(BondS.lo(b)), inS(BondS.hi(b)))  # noqa

    def inside(d):
        return z3.And(*[z3.Or(i >= _dlen(d), OIntS.is_ONone(d_slot(d, i)), inS(OIntS.ov(d_slot(d, i)))) for i in range(7)])

    sp = {"atom": lambda x: z3.And(v.atom(x), inS(x)), "bond": lambda b: z3.And(v.bond(b), inSb(b))}
    if cname in STEREO:
        sp["as"] = lambda x: z3.If(z3.And(v.as_has(x), inside(v.as_val(x))), osome(v.as_val(x)), ODescrS.DNone)
        sp["bs"] = lambda b: z3.If(z3.And(v.bs_has(b), inside(v.bs_val(b))), osome(v.bs_val(b)), ODescrS.DNone)
    if cname == "StereoCondensedReactionGraph":
        def acv(x, c):
            o = ac_view(v, x, c)
            return z3.If(z3.And(ODescrS.is_DSome(o), inside(ODescrS.dd(o))), o, ODescrS.DNone)

        def bcv(b, c):
            o = bc_view(v, b, c)
            return z3.If(z3.And(ODescrS.is_DSome(o), inside(ODescrS.dd(o))), o, ODescrS.DNone)

        sp["ac"], sp["bc"] = acv, bcv
    return sp


def _dlen(d):
    from ..pyvc.graphmodel import d_len

    return d_len(d)


class enantiomer(Derivation):
    classes = STEREO

    def call(self, it, g, cname):
        return ("method", "enantiomer", [], {}), {}

    def spec(self, v, s, cname):
        sp = {
            "as": lambda x: z3.If(v.as_has(x), osome(d_invert(v.as_val(x))), ODescrS.DNone),
            "bs": lambda b: z3.If(v.bs_has(b), osome(d_invert(v.bs_val(b))), ODescrS.DNone),
        }
        if cname == "StereoCondensedReactionGraph":
            def acv(x, c):
                o = ac_view(v, x, c)
                return z3.If(ODescrS.is_DSome(o), osome(d_invert(ODescrS.dd(o))), ODescrS.DNone)

            def bcv(b, c):
                o = bc_view(v, b, c)
                return z3.If(ODescrS.is_DSome(o), osome(d_invert(ODescrS.dd(o))), ODescrS.DNone)

            sp["ac"], sp["bc"] = acv, bcv
        return sp


def _swap_label(val):
    """FORMED <-> BROKEN on a reaction label value; FLEETING and anything else kept"""
    ValS = H.ValS
    return z3.If(val == ValS.VChg(H.CHG["FORMED"]), ValS.VChg(H.CHG["BROKEN"]), z3.If(val == ValS.VChg(H.CHG["BROKEN"]), ValS.VChg(H.CHG["FORMED"]), val))


def _swap_chg(c):
    return z3.If(c == H.CHG["FORMED"], H.CHG["BROKEN"], z3.If(c == H.CHG["BROKEN"], H.CHG["FORMED"], c))


class reverse_reaction(Derivation):
    """C08: formed <-> broken on the bond labels and inside the stereo changes, everything else (atoms, bonds, every other
    attribute, fleeting labels, descriptors) kept; the result is a new graph"""
    classes = REACTION

    def call(self, it, g, cname):
        return ("method", "reverse_reaction", [], {}), {}

    def spec(self, v, s, cname):
        sp = {"battr_val": lambda b, k: z3.If(k == H.K_REACTION, _swap_label(v.battr_val(b, k)), v.battr_val(b, k))}
        if cname == "StereoCondensedReactionGraph":
            sp["ac"] = lambda x, c: ac_view(v, x, _swap_chg(c))
            sp["bc"] = lambda b, c: bc_view(v, b, _swap_chg(c))
        return sp


class _side(Derivation):
    """C08: reactant() / product() of a CondensedReactionGraph: the atoms with their attributes, the bonds that exist on
    that side (unlabelled, or BROKEN for the reactant / FORMED for the product) with their attributes minus the label;
    a new MolGraph"""
    classes = ("CondensedReactionGraph",)
    keep_label = "BROKEN"
    method = "reactant"

    def result_class(self, cname):
        return "MolGraph"

    def call(self, it, g, cname):
        return ("method", self.method, [], {}), {}

    def on_side(self, v, b):
        lab = v.battr_val(b, H.K_REACTION)
        return z3.And(v.bond(b), z3.Or(z3.Not(v.battr_has(b, H.K_REACTION)), lab == H.ValS.VChg(H.CHG[self.keep_label])))

    def spec(self, v, s, cname):
        return {"bond": lambda b: self.on_side(v, b),
                "battr_has": lambda b, k: z3.And(v.battr_has(b, k), k != H.K_REACTION)}


class reactant(_side):
    keep_label, method = "BROKEN", "reactant"


class product(_side):
    keep_label, method = "FORMED", "product"


class _stereo_side(_side):
    """reactant() / product() of a StereoCondensedReactionGraph: the MolGraph part as above, the static descriptors, and the
    BROKEN (reactant) / FORMED (product) descriptor of every stereo change in their place; a new StereoMolGraph.
    Pre-condition (what from_graphs establishes and the property speaks about): a bond-centred stereo change of that role
    sits on a bond that exists on that side."""
    classes = ("StereoCondensedReactionGraph",)

    def result_class(self, cname):
        return "StereoMolGraph"

    def pre(self, v, s, cname):
        b = z3.Const("pb", BondS)
        c = H.CHG[self.keep_label]
        return z3.ForAll([b], z3.Implies(z3.And(v.bc_has(b), v.bc_slot_has(b, c)), self.on_side(v, b)), patterns=[v.bc_slot_has(b, c)])

    def spec(self, v, s, cname):
        sp = super().spec(v, s, cname)
        c = H.CHG[self.keep_label]
        sp["as"] = lambda x: z3.If(z3.And(v.ac_has(x), v.ac_slot_has(x, c)), v.ac_slot(x, c), as_view(v, x))
        sp["bs"] = lambda b: z3.If(z3.And(v.bc_has(b), v.bc_slot_has(b, c)), v.bc_slot(b, c), bs_view(v, b))
        return sp


class stereo_reactant(_stereo_side):
    keep_label, method = "BROKEN", "reactant"


class stereo_product(_stereo_side):
    keep_label, method = "FORMED", "product"


def _separate(v1, v2, cname):
    """two different graph objects: no table, attribute dict, neighbour set or change dict of one belongs to the other"""
    x, y = z3.Ints("s1 s2")
    b, b2 = z3.Const("sb1", BondS), z3.Const("sb2", BondS)
    cl = []
    t1 = [r for r in (v1.AT, v1.NT, v1.BT, v1.AS, v1.BS, v1.AC, v1.BC) if r is not None]
    t2 = [r for r in (v2.AT, v2.NT, v2.BT, v2.AS, v2.BS, v2.AC, v2.BC) if r is not None]
    cl += [a != c for a, c in zip(t1, t2)]
    cl.append(z3.ForAll([x, y], z3.Implies(z3.And(v1.atom(x), v2.atom(y)), z3.And(v1.aref(x) != v2.aref(y), v1.nref(x) != v2.nref(y))),
                        patterns=[z3.MultiPattern(v1.aref(x), v2.aref(y)), z3.MultiPattern(v1.nref(x), v2.nref(y))]))
    cl.append(z3.ForAll([b, b2], z3.Implies(z3.And(v1.bond(b), v2.bond(b2)), v1.bref(b) != v2.bref(b2)), patterns=[z3.MultiPattern(v1.bref(b), v2.bref(b2))]))
    cl.append(z3.ForAll([x, b], z3.Implies(z3.And(v1.atom(x), v2.bond(b)), v1.aref(x) != v2.bref(b)), patterns=[z3.MultiPattern(v1.aref(x), v2.bref(b))]))
    cl.append(z3.ForAll([x, b], z3.Implies(z3.And(v2.atom(x), v1.bond(b)), v2.aref(x) != v1.bref(b)), patterns=[z3.MultiPattern(v2.aref(x), v1.bref(b))]))
    return z3.And(*cl)


class compose2(Derivation):
    """C17: cls.compose((g, h)) for two arbitrary well-formed graphs of the class (different objects): the labelled union,
    attributes and descriptors of the LATER graph h winning where atoms or bonds overlap; a new graph"""
    classes = ALL  # discharged for MolGraph and CondensedReactionGraph; the stereo classes add four deepcopies and stay bounded (E3)

    def call(self, it, g, cname):
        from ..pyvc import graphmodel as GM

        h2 = GM.sym_graph(it, cname, "h_")
        hp = heap_of(it)
        vg, vh = GM.View(hp.snapshot(), g), GM.View(hp.snapshot(), h2)
        for name, f in GM.wf_clauses(vh, cname, tag="h"):
            it.assume(f)
        it.assume(_separate(vg, vh, cname))
        self._h = h2
        return ("method", "compose", [(g, h2)], {}), {"h_obj": None}

    def other_sources(self):
        return [self._h]

    def spec(self, v, s, cname):
        from ..pyvc import graphmodel as GM

        w = GM.View(v.h, self._h)
        sp = {
            "atom": lambda x: z3.Or(v.atom(x), w.atom(x)),
            "attr_has": lambda x, k: z3.If(w.atom(x), w.attr_has(x, k), v.attr_has(x, k)),
            "attr_val": lambda x, k: z3.If(w.atom(x), w.attr_val(x, k), v.attr_val(x, k)),
            "bond": lambda b: z3.Or(v.bond(b), w.bond(b)),
            "battr_has": lambda b, k: z3.If(w.bond(b), w.battr_has(b, k), v.battr_has(b, k)),
            "battr_val": lambda b, k: z3.If(w.bond(b), w.battr_val(b, k), v.battr_val(b, k)),
        }
        if cname in STEREO:
            sp["as"] = lambda x: z3.If(w.as_has(x), osome(w.as_val(x)), as_view(v, x))
            sp["bs"] = lambda b: z3.If(w.bs_has(b), osome(w.bs_val(b)), bs_view(v, b))
        if cname == "StereoCondensedReactionGraph":
            # a whole entry of the later graph replaces the entry of the earlier one
            sp["ac"] = lambda x, c: z3.If(w.ac_has(x), ac_view(w, x, c), ac_view(v, x, c))
            sp["bc"] = lambda b, c: z3.If(w.bc_has(b), bc_view(w, b, c), bc_view(v, b, c))
        return sp


DERIVATIONS = {"compose(g, h)": compose2, "reactant(stereo)": stereo_reactant, "product(stereo)": stereo_product, "reactant": reactant, "product": product, "reverse_reaction": reverse_reaction, "subgraph(any size)": subgraph_any, "copy": copy, "copy_constructor": copy_constructor, "relabel_atoms(copy=True)": relabel_copy, "relabel_atoms(copy=False)": relabel_inplace, "subgraph": subgraph, "enantiomer": enantiomer}
