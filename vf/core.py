"""Obligation bookkeeping, verdicts, evidence, known findings, replay files.

Exit codes (DESIGN 5.1): 0 held / 1 violation (VIOLATION line) / 2 undecided / 3 checker error.
"""
from __future__ import annotations

import hashlib
import json
import os
import re
import sys
import time
import traceback
from dataclasses import dataclass, field
from typing import Any

from . import REPO, VERIF

DISCHARGED, FAILED, UNDECIDED, ERROR = "discharged", "failed", "undecided", "error"


@dataclass
class Ob:
    """One obligation (a VC generated from the real source + side-car contract) or one bounded
    contract evaluation group."""

    name: str
    kind: str  # "proof" | "bounded"
    status: str
    backend: str = "z3"
    time_s: float = 0.0
    detail: str = ""
    # concrete failing input, replayable on the real code: python source of a script that exits 1
    # when the violation reproduces and 0 when it does not.
    replay_code: str | None = None
    witness: Any = None
    solver_output: str = ""
    evaluations: int = 0  # bounded: number of concrete contract evaluations behind this entry
    reproduced: bool | None = None


@dataclass
class Report:
    pid: str
    tier: str
    seed: int
    obs: list[Ob] = field(default_factory=list)
    functions: list[dict] = field(default_factory=list)  # functions under contract
    assumptions: list[str] = field(default_factory=list)
    trusted_base: list[str] = field(default_factory=list)
    samples: list[Any] = field(default_factory=list)
    rule: str = ""
    distinct_nontrivial: int = 0
    exhaustive: bool = False
    explanation: str = ""
    extra: dict = field(default_factory=dict)
    level: str = "other"
    traces_validated: int = 0

    def add(self, ob: Ob):
        self.obs.append(ob)
        return ob


def safe_name(s: str) -> str:
    s = re.sub(r"[^A-Za-z0-9_.=,+-]+", "_", s)
    if len(s) > 150:
        s = s[:110] + "_" + hashlib.sha1(s.encode()).hexdigest()[:12]
    return s


def load_known() -> list[dict]:
    p = os.path.join(VERIF, "known_findings.json")
    if not os.path.exists(p):
        return []
    return json.load(open(p))["findings"]


def src_info(relpath: str, qualname: str) -> dict:
    """Locate a function in the real source; return line range + hash of its text."""
    import ast

    path = os.path.join(REPO, "src", "stereomolgraph", relpath)
    text = open(path).read()
    tree = ast.parse(text)
    parts = qualname.split(".")
    node: Any = tree
    for p in parts:
        found = None
        for n in getattr(node, "body", []):
            if isinstance(n, (ast.FunctionDef, ast.ClassDef, ast.AsyncFunctionDef)) and n.name == p:
                found = n
        if found is None:
            return {"function": f"{relpath}:{qualname}", "missing": True}
        node = found
    seg = "\n".join(text.splitlines()[node.lineno - 1 : node.end_lineno])
    return {
        "function": f"{relpath}:{qualname}",
        "lines": [node.lineno, node.end_lineno],
        "sha1": hashlib.sha1(seg.encode()).hexdigest()[:12],
    }


REPLAY_HEADER = '''"""Replay of a failed obligation on the real code.  Run with /verif/.venv/bin/python.
Exits 1 when the violation reproduces on the tree under {repo}, 0 otherwise.
obligation: {name}
{detail}
"""
import sys
sys.path.insert(0, {src!r})
'''


def write_replay(pid: str, ob: Ob) -> str:
    d = os.path.join(VERIF, "replays", pid)
    os.makedirs(d, exist_ok=True)
    path = os.path.join(d, safe_name(ob.name) + ".py")
    body = ob.replay_code
    with open(path, "w") as f:
        f.write(
            REPLAY_HEADER.format(
                repo=REPO, name=ob.name, detail=ob.detail.replace('"""', "'''"), src=os.path.join(REPO, "src")
            )
        )
        if body:
            f.write(body)
        else:
            f.write("# no failing input was found by the verifier; solver output follows\n")
            f.write("SOLVER_OUTPUT = " + repr(ob.solver_output) + "\n")
            f.write("print('obligation', " + repr(ob.name) + ", 'failed; no concrete input available')\n")
            f.write("print(SOLVER_OUTPUT)\nsys.exit(1)\n")
    return path


def run_replay(path: str, timeout: int = 300) -> tuple[int, str]:
    import subprocess

    py = os.path.join(VERIF, ".venv", "bin", "python")
    env = dict(os.environ)
    env["PYTHONPATH"] = os.path.join(REPO, "src")
    try:
        p = subprocess.run([py, path], capture_output=True, text=True, timeout=timeout, env=env)
        return p.returncode, (p.stdout + p.stderr)[-4000:]
    except subprocess.TimeoutExpired:
        return 124, "timeout"


def finish(rep: Report, t0: float) -> int:
    """Apply known findings, print verdict lines, write evidence, return exit code."""
    known = [k for k in load_known() if k.get("property") == rep.pid and k.get("status", "open") == "open"]
    known_by_ob = {k["obligation"]: k for k in known}
    violations: list[Ob] = []
    known_hit: list[tuple[Ob, dict]] = []
    undecided = [o for o in rep.obs if o.status == UNDECIDED]
    errors = [o for o in rep.obs if o.status == ERROR]
    for o in rep.obs:
        if o.status != FAILED:
            continue
        k = known_by_ob.get(o.name)
        if k is not None:
            known_hit.append((o, k))
        else:
            violations.append(o)
    lines = []
    for o, k in known_hit:
        lines.append(f"KNOWN-FINDING: property={rep.pid} {k['what']} [{o.name}]")
    for o in violations:
        path = write_replay(rep.pid, o)
        suffix = ""
        if o.replay_code:
            rc, out = run_replay(path)
            o.reproduced = rc == 1
            if rc != 1:
                # The model did not reproduce on the real code: never reported as a defect (5.2 step 5)
                o.status = ERROR
                o.detail += f"\nreplay did not reproduce (rc={rc}): {out[-500:]}"
                errors.append(o)
                continue
        else:
            suffix = " no-failing-input-found"
        lines.append(f"VIOLATION property={rep.pid} replay={path}{suffix}")
    violations = [o for o in violations if o.status == FAILED]
    for o in undecided:
        lines.append(f"UNDECIDED property={rep.pid} obligation={o.name} {o.detail[:200]}")
    for o in errors:
        lines.append(f"CHECKER-ERROR property={rep.pid} obligation={o.name} {o.detail[:300]}")
    for l in lines:
        print(l)
    write_evidence(rep, t0, violations, known_hit, undecided, errors)
    n_proof = sum(1 for o in rep.obs if o.kind == "proof")
    n_dis = sum(1 for o in rep.obs if o.kind == "proof" and o.status == DISCHARGED)
    n_b = sum(1 for o in rep.obs if o.kind == "bounded")
    print(
        f"[{rep.pid}] tier={rep.tier} proof-obligations={n_proof} discharged={n_dis} bounded-groups={n_b} "
        f"evaluations={sum(o.evaluations for o in rep.obs)} known={len(known_hit)} violations={len(violations)} "
        f"undecided={len(undecided)} errors={len(errors)} wall={time.time() - t0:.1f}s"
    )
    if violations:
        return 1
    if errors:
        return 3
    if undecided:
        return 2
    return 0


def write_evidence(rep: Report, t0, violations, known_hit, undecided, errors):
    proof = [o for o in rep.obs if o.kind == "proof"]
    bounded = [o for o in rep.obs if o.kind == "bounded"]
    backends: dict[str, int] = {}
    for o in proof:
        backends[o.backend] = backends.get(o.backend, 0) + 1
    n_dis = sum(1 for o in proof if o.status == DISCHARGED)
    level = rep.level
    if level == "proof" and (n_dis != len(proof) or not proof):
        level = "other"
    cov: dict[str, Any] = {
        "obligations": len(proof),
        "discharged": n_dis,
        "checker_cmd": f"./check {rep.pid} {rep.tier}",
        "trusted_base": rep.trusted_base,
        "backends": backends,
        "solver_time_s": round(sum(o.time_s for o in proof), 3),
        "functions_under_contract": rep.functions,
        "evaluations": sum(o.evaluations for o in rep.obs) or len(rep.obs),
        "distinct_nontrivial": rep.distinct_nontrivial,
        "rule": rep.rule,
        "samples": rep.samples[:12] or [o.name for o in rep.obs[:8]],
        "exhaustive": rep.exhaustive,
        "explanation": rep.explanation,
        "bounded_groups": [
            {"name": o.name, "status": o.status, "evaluations": o.evaluations, "time_s": round(o.time_s, 2)}
            for o in bounded
        ],
        "traces_validated_against_impl": rep.traces_validated,
        "undecided": [o.name for o in undecided],
        "checker_errors": [o.name for o in errors],
        "known_findings": [{"obligation": o.name, "what": k["what"]} for o, k in known_hit],
        "failed_obligations": [o.name for o in violations],
        "obligation_names_sha1": hashlib.sha1("\n".join(sorted(o.name for o in rep.obs)).encode()).hexdigest()[:16],
    }
    cov.update(rep.extra)
    ev = {
        "property_id": rep.pid,
        "tier": rep.tier,
        "seed": rep.seed,
        "level": level,
        "coverage": cov,
        "assumptions": rep.assumptions,
        "wall_s": round(time.time() - t0, 2),
        "violations": len(violations),
    }
    os.makedirs(os.path.join(VERIF, "evidence"), exist_ok=True)
    with open(os.path.join(VERIF, "evidence", f"{rep.pid}.json"), "w") as f:
        json.dump(ev, f, indent=1, default=str)


def guarded(fn, rep: Report, name: str, kind="proof"):
    """Run an obligation generator; a crash of the machinery is a checker error, never a verdict."""
    try:
        return fn()
    except Exception as e:  # noqa
        rep.add(Ob(name, kind, ERROR, detail=f"{type(e).__name__}: {e}\n{traceback.format_exc()[-1500:]}"))
        return None
