#!/bin/sh
# Builds the overlay interpreter /verif/.venv (CPython 3.12 of /venv + z3/cvc5/sympy wheels, offline).
set -e
cd "$(dirname "$0")"
if [ -x .venv/bin/python ] && .venv/bin/python -c "import z3, sympy, cvc5, jsonschema, numpy, rdkit, stereomolgraph" 2>/dev/null; then
  exit 0
fi
rm -rf .venv
/venv/bin/python -m venv .venv
PIP_NO_INDEX=1 .venv/bin/python -m pip install -q --no-index --find-links /opt/veriftools/wheels \
    z3-solver cvc5 sympy jsonschema >/dev/null
SP=$(.venv/bin/python -c "import site; print(site.getsitepackages()[0])")
echo "import site; site.addsitedir('/venv/lib/python3.12/site-packages')" > "$SP/zz_venv_overlay.pth"
.venv/bin/python -c "import z3, sympy, cvc5, jsonschema, numpy, rdkit, stereomolgraph; print('overlay venv ok', z3.get_version_string())"
