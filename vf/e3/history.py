"""Bounded exploration of editing histories on the real classes in lockstep with the reference model
(C09, C19).  Breadth-first to a depth bound from several start states + long random walks."""
from __future__ import annotations

import random

from ..spec.refmodel import Ref, build_real, coherent, raw_state, real_class, snapshot
from ..spec.refops import apply_real, apply_ref, op_instances, queries
from .harness import Group, ref_code

KINDS = ("MG", "SMG", "CRG", "SCRG")


def start_states(kind):
    from .scope import decorate, mk

    out = [("empty", Ref(kind))]
    r = mk(kind, 4, [(0, 1), (0, 2), (0, 3)], [6, 1, 9, 17])
    if r.stereo_kind:
        r.atom_stereo[0] = ("Tetrahedral", (0, 1, 2, 3, None), 1)
    if r.reaction_kind:
        r.bonds[frozenset((0, 3))]["reaction"] = "broken"
    if kind == "SCRG":
        r.atom_stereo.pop(0)
        r.atom_changes[0] = {"broken": ("Tetrahedral", (0, 1, 2, 3, None), 1), "formed": ("Tetrahedral", (0, 2, 1, 3, None), 1)}
        r.bonds[frozenset((1, 2))] = {}
        r.bond_changes[frozenset((1, 2))] = {"fleeting": ("PlanarBond", (0, None, 1, 2, 0, None), 0)}
    out.append(("decorated-star", r))
    r2 = mk(kind, 3, [(0, 1)], [6, 7, 8])
    out.append(("bond+atom", r2))
    return out


def scripted_prefixes(kind):
    out = []
    if kind in ("SMG", "SCRG"):
        d = ("PlanarBond", (0, None, 1, 2, 3, None), 0)
        out.append([("add_bond", 1, 2, {}), ("set_bond_stereo", d), ("remove_bond", 1, 2)])
        out.append([("add_bond", 1, 2, {}), ("set_bond_stereo", d), ("remove_bond", 1, 2), ("add_bond", 1, 2, {})])
    if kind == "SCRG":
        d2 = ("PlanarBond", (0, None, 1, 3, 2, None), 0)
        out.append([("add_bond", 1, 3, {}), ("set_bond_stereo_change", {"formed": d2}), ("remove_bond", 1, 3)])
    return out


def replay_history(kind, start_code_ref: Ref, ops, final_check):
    """used by replay scripts: returns True when the property holds on this history"""
    g = build_real(start_code_ref)
    r = start_code_ref.copy()
    for op in ops[:-1]:
        apply_real(g, op)
        apply_ref(r, op)
    return check_step(kind, g, r, ops[-1], final_check)[0]


def check_step(kind, g, r, op, what):
    """performs op on (g, r) and evaluates the named clause; returns (ok, detail)"""
    before = raw_state(g)
    r_before = r.copy()
    verdict = apply_ref(r, op)
    res, exc = apply_real(g, op)
    after = raw_state(g)
    if what == "rejected-raises-and-changes-nothing":
        if verdict != "rejected":
            return True, ""
        if exc is None:
            return False, f"ill-formed request {op} was accepted"
        if after != before:
            return False, f"rejected request {op} raised {type(exc).__name__} but changed the graph: {diff(before, after)}"
        return True, ""
    if what == "failed-request-changes-nothing":
        if verdict != "error":
            return True, ""
        if after != before and exc is not None:
            return False, f"request {op} raised {type(exc).__name__} but changed the graph: {diff(before, after)}"
        if exc is None and snapshot(g).canon() != r_before.canon():
            return False, f"request {op} could not be honoured, did not raise, and changed the views"
        return True, ""
    if what == "view-matches-reference":
        if verdict != "ok":
            return True, ""
        if exc is not None:
            return False, f"well-formed request {op} raised {type(exc).__name__}: {exc}"
        got, exp = snapshot(g).canon(), r.canon()
        if got != exp:
            return False, f"after {op}: views {got} differ from the reference model {exp}"
        return True, ""
    if what == "coherent":
        if verdict != "ok" or exc is not None:
            return True, ""
        probs = coherent(g)
        if probs:
            return False, f"after {op}: {probs[:3]}"
        return True, ""
    raise ValueError(what)


def diff(a, b):
    out = []
    for k in a:
        if a[k] != b.get(k):
            out.append(f"{k}: {a[k]} -> {b.get(k)}")
    return "; ".join(out)[:400]


CLAUSES = ("rejected-raises-and-changes-nothing", "failed-request-changes-nothing", "view-matches-reference", "coherent")


def run_histories(rep, prop, tier, seed, clauses, with_queries):
    rng = random.Random(seed + 9)
    universe = (0, 1, 2, 3)
    n_walks, walk_len, depth = (12, 25, 1) if tier == "quick" else (120, 60, 2)
    distinct_states = set()
    for kind in KINDS:
        groups = {}

        def grp(opname, clause):
            k = (opname, clause)
            if k not in groups:
                groups[k] = Group(rep, f"{prop}/bounded/{kind}/{opname}/{clause}")
            return groups[k]

        menu = op_instances(kind, universe, random.Random(seed))
        qs = queries(kind, universe + (7,))

        def visit(start_ref, hist):
            """apply the whole menu (one op each, on a fresh copy) to the state reached by hist"""
            for op in menu:
                for clause in clauses:
                    g = build_real(start_ref)
                    r = start_ref.copy()
                    for h in hist:
                        apply_real(g, h)
                        apply_ref(r, h)
                    if snapshot(g).canon() != r.canon():
                        continue  # an earlier request already diverged; it is blamed where it was issued
                    ok, detail = check_step(kind, g, r, op, clause)
                    body = (f"from vf.e3.history import replay_history\nok = replay_history({kind!r}, {ref_code(start_ref)}, {list(hist) + [op]!r}, {clause!r})\n")
                    grp(op[0], clause).case(ok, detail + f" [start={start_ref.describe()} history={hist}]", body, sample={"history": [repr(h) for h in hist] + [repr(op)]})
            if with_queries:
                g = build_real(start_ref)
                r = start_ref.copy()
                for h in hist:
                    apply_real(g, h)
                    apply_ref(r, h)
                for qname, q in qs:
                    before = raw_state(g)
                    try:
                        q(g)
                    except Exception:  # noqa
                        pass
                    after = raw_state(g)
                    qfam = qname.split("(")[0].split("[")[0]
                    body = (f"from vf.e3.history import replay_query\nok = replay_query({kind!r}, {ref_code(start_ref)}, {list(hist)!r}, {qname!r})\n")
                    grp(qfam, "query-changes-nothing").case(before == after, f"read-only query {qname} changed the graph: {diff(before, after)} [start={start_ref.describe()} history={hist}]", body)
            distinct_states.add((kind, repr(start_ref.canon()), repr(hist)))

        for sname, sref in start_states(kind):
            # breadth-first to the depth bound
            frontier = [()]
            for d in range(depth + 1):
                nxt = []
                for hist in frontier:
                    visit(sref, hist)
                    if d < depth:
                        for op in menu:
                            r = sref.copy()
                            for h in hist:
                                apply_ref(r, h)
                            if apply_ref(r, op) == "ok":
                                nxt.append(hist + (op,))
                if d < depth and len(nxt) > (12 if tier == "quick" else 400):
                    nxt = rng.sample(nxt, 12 if tier == "quick" else 400)
                frontier = nxt
            # scripted prefixes: states the random part reaches only by luck (the bond pulled from under a descriptor / stereo change)
            for hist in scripted_prefixes(kind):
                r = sref.copy()
                if all(apply_ref(r, op) == "ok" for op in hist):
                    visit(sref, tuple(hist))
            # random walks
            for w in range(n_walks):
                hist = ()
                r = sref.copy()
                g = build_real(sref)
                diverged = False
                for _ in range(walk_len):
                    op = rng.choice(menu)
                    r2 = r.copy()
                    if apply_ref(r2, op) != "ok":
                        continue
                    # live step: the first op after which the views disagree is the one blamed
                    apply_real(g, op)
                    r = r2
                    hist += (op,)
                    body = (f"from vf.e3.history import replay_history\nok = replay_history({kind!r}, {ref_code(sref)}, {list(hist)!r}, 'view-matches-reference')\n")
                    got, exp = snapshot(g).canon(), r.canon()
                    if "view-matches-reference" in clauses:
                        if not grp(op[0], "view-matches-reference").case(got == exp, f"after {op}: views {got} differ from the reference model {exp} [start={sref.describe()} history={hist}]", body):
                            diverged = True
                            break
                    elif got != exp:
                        diverged = True
                        break
                    if "coherent" in clauses:
                        probs = coherent(g)
                        body2 = body.replace("view-matches-reference", "coherent")
                        if not grp(op[0], "coherent").case(not probs, f"after {op}: {probs[:3]} [start={sref.describe()} history={hist}]", body2):
                            diverged = True
                            break
                if not diverged and hist:
                    visit(sref, hist)
        for g_ in groups.values():
            g_.close()
    rep.distinct_nontrivial = len(distinct_states)


def replay_query(kind, start_ref, hist, qname):
    g = build_real(start_ref)
    for h in hist:
        apply_real(g, h)
    for n, q in queries(kind, (0, 1, 2, 3, 7)):
        if n == qname:
            before = raw_state(g)
            try:
                q(g)
            except Exception as e:  # noqa
                print("query raised", type(e).__name__)
            after = raw_state(g)
            print(diff(before, after))
            return before == after
    return True


# ------------------------------------------------------------------------------------------------ reachable states
def reachable_states(kind, seed, n_walks, walk_len, every=3):
    """(start_ref, history) pairs: states reached from the start states by random well-formed public editing requests;
    used by the derivation properties (C06, C08) so that they are evaluated on edited graphs, not only on built ones"""
    rng = random.Random(seed + 77)
    menu = op_instances(kind, (0, 1, 2, 3), random.Random(seed))
    # stereo-change requests are rare in the menu: give them weight
    heavy = [op for op in menu if "stereo" in op[0]]
    for sname, sref in start_states(kind):
        for w in range(n_walks):
            r, hist = sref.copy(), ()
            for i in range(walk_len):
                if heavy and rng.random() < 0.6:
                    # an applicable stereo request; deletions (applicable only where something is stored) get half of the weight
                    ok_ops = [op for op in heavy if apply_ref(r.copy(), op) == "ok"]
                    # pulling the bond from under a bond-centred descriptor / stereo change is an editing step of its own kind
                    under = [("remove_bond", *sorted(b)) for b in list(r.bond_stereo) + list(r.bond_changes) if b in r.bonds]
                    dels = [op for op in ok_ops if op[0].startswith("delete")] + under
                    pool = dels if dels and rng.random() < 0.5 else ok_ops
                    if not pool:
                        continue
                    op = rng.choice(pool)
                else:
                    op = rng.choice(menu)
                r2 = r.copy()
                if apply_ref(r2, op) != "ok":
                    continue
                r, hist = r2, hist + (op,)
                if len(hist) % every == 0:
                    yield sref, hist
            if hist:
                yield sref, hist


def rebuild(start_ref, hist):
    g = build_real(start_ref)
    for h in hist:
        apply_real(g, h)
    return g
