"""Obligation generation for graph-class methods: symbolic execution of the REAL method (resolved through
the MRO of the class) from an arbitrary well-formed pre-state, then one VC per (path, clause)."""
from __future__ import annotations

import time

import z3

from ..core import DISCHARGED, ERROR, FAILED, UNDECIDED, Ob
from . import graphmodel as GM
from . import heap as H
from .heap import BondS, ChgS, D_ATTR, Heap, ODescrS, heap_of
from .heap import mkbond as mkb
from .interp import BoundMethod, ClassRef, Interp, Obj, OutOfSubset, PyRaise
from .values import B

REL = {"MolGraph": "graphs/mg.py", "StereoMolGraph": "graphs/smg.py", "CondensedReactionGraph": "graphs/crg.py", "StereoCondensedReactionGraph": "graphs/scrg.py"}
SHORT = {"MolGraph": "MG", "StereoMolGraph": "SMG", "CondensedReactionGraph": "CRG", "StereoCondensedReactionGraph": "SCRG"}


def solve(fs, timeout_ms):
    s = z3.Solver()
    s.set("timeout", timeout_ms)
    s.set("auto_config", False)
    s.set("mbqi", False)
    for f in fs:
        s.add(B(f))
    t = time.time()
    r = s.check()
    return r, s, time.time() - t


# Once a few obligations of one function have stayed undecided the function's verdict is settled (undecided, or a violation
# when a bounded replay exists); the remaining obligations get the cheap stages only, so that a check on a broken tree ends
# in minutes.  On a tree where everything discharges this never triggers.
BUDGET = {"undecided": 0, "limit": 2}


def _spent():
    return BUDGET["undecided"] >= BUDGET["limit"]


def solve_assert(aass, apc, af, timeout):
    r_, s_, dt_ = _solve_assert(aass, apc, af, timeout)
    if r_ != z3.unsat:
        BUDGET["undecided"] += 1
    return r_, s_, dt_


def _solve_assert(aass, apc, af, timeout):
    """intermediate obligation (loop invariant, callee pre-condition): cheapest first - the goal alone (frames that hold by
    construction), the quantifier-free facts only, everything, everything + generic instances at the goal's constants"""
    r_, s_, dt_ = solve([z3.Not(af)], 500)
    if r_ != z3.unsat:
        r_, s_, dt_ = solve([a_ for a_ in aass if _qf(B(a_))] + list(apc) + [z3.Not(af)], 2000)
    if r_ != z3.unsat:
        r_, s_, dt_ = solve(list(aass) + list(apc) + [z3.Not(af)], min(timeout, 3000) if _spent() else timeout)
    if r_ == z3.unknown and not _spent():
        r_, s_, dt_ = solve(list(aass) + list(apc) + generic_instances([B(a_) for a_ in aass], [c_ for c_ in _consts(af)]) + [z3.Not(af)], 3 * timeout)
    if r_ == z3.unknown and not _spent():
        # model-based quantifier instantiation finds instances E-matching has no trigger for (terms under the lambdas of the
        # deepcopy model); tried on the hypotheses that share a heap array with the goal, then on all of them.  An `unsat`
        # is sound whichever strategy produced it and whichever hypotheses were left out.
        goal_arrays = _array_syms(af)
        related = [a_ for a_ in aass if not _array_syms(B(a_)) or (_array_syms(B(a_)) & goal_arrays)]
        for hyps in (related, list(aass)):
            s2 = z3.Solver()
            s2.set("timeout", 2 * timeout)
            for f in list(hyps) + list(apc) + [z3.Not(af)]:
                s2.add(B(f))
            t2 = time.time()
            r2 = s2.check()
            dt_ += time.time() - t2
            if r2 == z3.unsat:
                return r2, s2, dt_
    return r_, s_, dt_


def _array_syms(f):
    """names of the uninterpreted array constants (heap arrays, ghost sets) occurring in f"""
    out, seen, stack = set(), set(), [f]
    while stack:
        e = stack.pop()
        if e.get_id() in seen:
            continue
        seen.add(e.get_id())
        if z3.is_quantifier(e):
            stack.append(e.body())
            continue
        if z3.is_app(e):
            if e.num_args() == 0 and e.decl().kind() == z3.Z3_OP_UNINTERPRETED and z3.is_array(e):
                out.add(str(e))
            stack.extend(e.children())
    return out


def _qf(f):
    """quantifier-free?"""
    seen = set()
    stack = [f]
    while stack:
        e = stack.pop()
        if e.get_id() in seen:
            continue
        seen.add(e.get_id())
        if z3.is_quantifier(e):
            return False
        stack.extend(e.children())
    return True


def prune(interp, cond):
    """feasibility pruning with the quantifier-free assumptions only (sound: fewer assumptions prune less)"""
    key = "qf_assumptions"
    cache = interp.state.setdefault(key, [0, []])
    if cache[0] != len(interp.assumptions):
        cache[1] = [a for a in interp.assumptions if _qf(a)]
        cache[0] = len(interp.assumptions)
    s = z3.Solver()
    s.set("timeout", int(interp.state.get("prune_timeout", 300)))
    s.add(*cache[1], *interp.pc)
    wfv = interp.state.get("wf_view")
    if wfv is not None:
        gi, gb = interp.state.get("ground_ints", []), interp.state.get("ground_bonds", [])
        ic = interp.state.setdefault("inst_cache", [(-1, -1), []])
        if ic[0] != (len(gi), len(gb)):
            ints = list(gi)
            bonds = list(gb)
            for b_ in gb:
                ints += [BondS.lo(b_), BondS.hi(b_)]
            for x in ints[:4]:
                for y in ints[:4]:
                    if not x.eq(y):
                        bonds.append(mkb(x, y))
            ic[1] = [B(f) for f in GM.wf_instances(wfv[0], wfv[1], ints[:6], bonds[:10])]
            ic[0] = (len(gi), len(gb))
        s.add(*ic[1])
    ri = _ref_instances(interp)
    if ri:
        s.add(*ri)
    s.push()
    s.add(cond)
    r1 = s.check()
    s.pop()
    if r1 == z3.unsat:
        return False
    s.add(z3.Not(cond))
    if s.check() == z3.unsat:
        return True
    if (interp.state.get("n_loops") or interp.state.get("generic_depth") or interp.state.get("quantified_facts")) and interp.state.get("prune_quantified", True):
        # after a loop was summarised by its invariant the facts about the heap are quantified (frames, invariants):
        # second attempt with all assumptions and E-matching (an `unsat` is sound whatever the heuristics do)
        qs = z3.Solver()
        qs.set("timeout", int(interp.state.get("prune_q_timeout", 800)))
        qs.set("auto_config", False)
        qs.set("mbqi", False)
        qs.add(*[B(a) for a in interp.assumptions], *interp.pc, *(ic[1] if wfv is not None else []))
        qs.push()
        qs.add(cond)
        r1 = qs.check()
        qs.pop()
        if r1 == z3.unsat:
            return False
        qs.add(z3.Not(cond))
        if qs.check() == z3.unsat:
            return True
    return None


def _ref_instances(interp):
    """ground instances of the assumed loop-invariant clauses that quantify over heap references (bound variable `lr`)
    at the references the loop contracts named as hints (instances of assumed universals: sound)"""
    refs = interp.state.get("ground_refs", [])
    if not refs:
        return []
    cache = interp.state.setdefault("ref_inst_cache", [(-1, -1), []])
    if cache[0] != (len(refs), len(interp.assumptions)):
        out = []
        for a in interp.assumptions:
            if z3.is_quantifier(a) and a.is_forall() and a.num_vars() == 1 and a.var_name(0) == "lr":
                out += [z3.substitute_vars(a.body(), r) for r in refs]
        cache[0], cache[1] = (len(refs), len(interp.assumptions)), out
    return cache[1]


def unchanged(h0: Heap, h1: Heap, g0: Obj, g1: Obj, tag="u"):
    """raw_state unchanged: same table references and identical contents of every pre-existing object"""
    r = z3.Int(f"r!{tag}")
    conj = [r >= 0, r < h0.A0]
    diffs = []
    for n in H.DICT_TYPES:
        if not (h0.dom[n].eq(h1.dom[n])):
            diffs.append(z3.Select(h0.dom[n], r) != z3.Select(h1.dom[n], r))
        if not (h0.val[n].eq(h1.val[n])):
            # contents are compared on the domain (stale values of deleted keys are not observable)
            k = z3.Const(f"k!{tag}{n}", H.DICT_TYPES[n].ksort)
            diffs.append(z3.And(z3.Select(z3.Select(h0.dom[n], r), k), z3.Select(z3.Select(h0.val[n], r), k) != z3.Select(z3.Select(h1.val[n], r), k)))
    for n in H.SET_TYPES:
        if not (h0.mem[n].eq(h1.mem[n])):
            diffs.append(z3.Select(h0.mem[n], r) != z3.Select(h1.mem[n], r))
    fields = []
    for f, d0 in g0.fields.items():
        d1 = g1.fields.get(f)
        if d1 is None or not isinstance(d1, H.DictRef):
            fields.append(z3.BoolVal(True))
        elif not d0.ref.eq(d1.ref):
            fields.append(d0.ref != d1.ref)
    changed = z3.Or(z3.And(*conj, z3.Or(*diffs)) if diffs else z3.BoolVal(False), *fields) if (diffs or fields) else z3.BoolVal(False)
    return z3.Not(changed)


COMPONENTS = {
    # name -> (point sorts, getter(view, *pt), guard(view_new, *pt))
    "atom": (("int",), lambda v, x: v.atom(x), None),
    "attr_has": (("int", "key"), lambda v, x, k: v.attr_has(x, k), lambda v, x, k: v.atom(x)),
    "attr_val": (("int", "key"), lambda v, x, k: v.attr_val(x, k), lambda v, x, k: z3.And(v.atom(x), v.attr_has(x, k))),
    "bond": (("bond",), lambda v, b: v.bond(b), None),
    "battr_has": (("bond", "key"), lambda v, b, k: v.battr_has(b, k), lambda v, b, k: v.bond(b)),
    "battr_val": (("bond", "key"), lambda v, b, k: v.battr_val(b, k), lambda v, b, k: z3.And(v.bond(b), v.battr_has(b, k))),
}
STEREO_COMPONENTS = {
    "as": (("int",), lambda v, x: z3.If(v.as_has(x), ODescrS.DSome(v.as_val(x)), ODescrS.DNone), None),
    "bs": (("bond",), lambda v, b: z3.If(v.bs_has(b), ODescrS.DSome(v.bs_val(b)), ODescrS.DNone), None),
}
CHANGE_COMPONENTS = {
    "ac": (("int", "chg"), lambda v, x, c: z3.If(z3.And(v.ac_has(x), v.ac_slot_has(x, c)), v.ac_slot(x, c), ODescrS.DNone), None),
    "bc": (("bond", "chg"), lambda v, b, c: z3.If(z3.And(v.bc_has(b), v.bc_slot_has(b, c)), v.bc_slot(b, c), ODescrS.DNone), None),
}


PATTERNS = {
    "atom": lambda v, x: [v.atom(x)],
    "attr_has": lambda v, x, k: [v.attr_has(x, k)],
    "attr_val": lambda v, x, k: [v.attr_val(x, k)],
    "bond": lambda v, b: [v.bond(b)],
    "battr_has": lambda v, b, k: [v.battr_has(b, k)],
    "battr_val": lambda v, b, k: [v.battr_val(b, k)],
    "as": lambda v, x: [v.as_has(x), v.as_val(x)],
    "bs": lambda v, b: [v.bs_has(b), v.bs_val(b)],
    "ac": lambda v, x, c: [v.ac_slot_has(x, c), v.ac_slot(x, c)],
    "bc": lambda v, b, c: [v.bc_slot_has(b, c), v.bc_slot(b, c)],
}


def components_for(cname):
    c = dict(COMPONENTS)
    if cname in ("StereoMolGraph", "StereoCondensedReactionGraph"):
        c.update(STEREO_COMPONENTS)
    if cname == "StereoCondensedReactionGraph":
        c.update(CHANGE_COMPONENTS)
    return c


def skolem(sorts, tag):
    out = []
    for i, s in enumerate(sorts):
        if s == "int":
            out.append(z3.Int(f"p{i}!{tag}"))
        elif s == "key":
            out.append(z3.Const(f"p{i}!{tag}", H.KeyS))
        elif s == "bond":
            b = z3.Const(f"p{i}!{tag}", BondS)
            out.append(b)
        elif s == "chg":
            out.append(z3.Const(f"p{i}!{tag}", ChgS))
    return out


def bond_norm(pts, sorts):
    """generic bond points range over NORMALISED pairs (lo <= hi), as every key the code can build"""
    return [BondS.lo(p) <= BondS.hi(p) for p, s in zip(pts, sorts) if s == "bond"]


def run_method(world, cname, mname, contract, iter_bound=2, attr_access=None, callee_contracts=None, chg_one_slot=False, loop_contracts=None):
    """-> (paths, None) ; each path.handles has g0, g1, h0, h1, v0, sym, bounded"""
    it = Interp(world)
    GM.install(it)
    it.prune = prune
    cls = world.cls(cname)
    for key, fn in (callee_contracts or {}).items():
        it.contracts[key] = fn
    from .interp import Builtin as _B
    it.builtins["__for__"] = _B("__for__", for_hook)

    def thunk(interp, handles):
        interp.state["heap"] = Heap("pre")
        interp.state["iter_bound"] = iter_bound
        interp.state["chg_one_slot"] = chg_one_slot
        interp.state["loop_contracts"] = loop_contracts
        h = heap_of(interp)
        g = GM.sym_graph(interp, cname, "g_")
        interp.assume(h.A0 >= 0)
        for ax in H.background_axioms():
            interp.assume(ax)
        h0 = h.snapshot()
        g0 = Obj(g.cls, dict(g.fields))
        v0 = GM.View(h0, g0)
        for name, f in GM.wf_clauses(v0, cname):
            interp.assume(f)
        pos, kw, sym = contract.args(interp, g, cname)
        interp.assume(contract.extra_pre(v0, sym, cname))
        H._CURRENT["interp"] = interp
        interp.state["wf_view"] = (v0, cname)
        for t_ in sym.values():
            if t_ is not None and z3.is_expr(t_) and not str(t_).endswith("_ref"):
                H.note_ground(interp, t_)
        handles.update(g0=g0, g1=g, h0=h0, h1=h, v0=v0, sym=sym)
        try:
            if attr_access:
                prop = interp.getattr(g, mname)
                key = pos[0]
                res = interp.getitem(prop, key)
            else:
                c, m = cls.find(mname)
                if m is None:
                    raise OutOfSubset(f"{cname} has no method {mname}")
                res = interp.call_value(BoundMethod(g, m[1], c), pos, kw)
        finally:
            handles["bounded"] = bool(interp.state.get("bounded_iteration"))
            handles["ground"] = (list(interp.state.get("ground_ints", [])), list(interp.state.get("ground_bonds", [])))
        return res

    return it.run(thunk)


def verify_mutator(obs, world, cname, mname, contract, pid_map, timeout=20000, iter_bound=2, callee_contracts=None, chg_one_slot=False, loop_contracts=None):
    BUDGET["undecided"] = 0
    """pid_map: {"C19": bool, "C09": bool} which property's clauses to emit"""
    base = f"{REL[cname]}:{cname}.{mname}"
    try:
        paths = run_method(world, cname, mname, contract, iter_bound, callee_contracts=callee_contracts, chg_one_slot=chg_one_slot, loop_contracts=loop_contracts)
    except OutOfSubset as e:
        obs.append(Ob(f"E1/{base}", "proof", ERROR, detail=f"out of subset: {e}"))
        return
    if not paths:
        obs.append(Ob(f"E1/{base}", "proof", ERROR, detail="no paths"))
        return
    comps = components_for(cname)
    n_ret = sum(1 for p in paths if p.outcome[0] == "ret")
    n_raise = len(paths) - n_ret
    for i, p in enumerate(paths):
        hd = p.handles
        if "v0" not in hd:
            obs.append(Ob(f"E1/{base}#path{i}", "proof", ERROR, detail="path ended before the call"))
            continue
        v0, sym, h0, h1, g0, g1 = hd["v0"], hd["sym"], hd["h0"], hd["h1"], hd["g0"], hd["g1"]
        kind = "bounded" if hd.get("bounded") else "proof"
        pre = list(p.assumptions) + list(p.pc)
        R = contract.rejected(v0, sym, cname)
        E = contract.error(v0, sym, cname)
        OK = z3.And(z3.Not(R), z3.Not(E))
        raised = p.outcome[0] == "raise"
        loopstep = p.outcome[0] == "loopstep"
        v1 = GM.View(h1, g1)
        spec = contract.spec(v0, sym, cname)

        arg_ints = [t for t in sym.values() if t is not None and z3.is_expr(t) and t.sort() == z3.IntSort() and not str(t).endswith("_ref")]
        arg_bonds = [t for t in sym.values() if t is not None and z3.is_expr(t) and t.sort() == BondS]
        arg_descr = [t for t in sym.values() if t is not None and z3.is_expr(t) and t.sort() == H.DescrS]
        for t in arg_descr:
            arg_ints += [H.OIntS.ov(GM.d_slot(t, 0)), H.OIntS.ov(GM.d_slot(t, 2)), H.OIntS.ov(GM.d_slot(t, 3))]
        for t in hd.get("ground", ([], []))[0]:
            if not any(t.eq(y) for y in arg_ints):
                arg_ints.append(t)
        for t in hd.get("ground", ([], []))[1]:
            if not any(t.eq(y) for y in arg_bonds):
                arg_bonds.append(t)

        base_cache = {}

        def instances(skolems):
            a_ints = list(arg_ints)
            a_bonds = list(arg_bonds)
            for bnd in list(a_bonds):
                a_ints += [BondS.lo(bnd), BondS.hi(bnd)]
            for x in a_ints[:4]:
                for y in a_ints[:4]:
                    if not x.eq(y):
                        a_bonds.append(mkb(x, y))
            a_ints, a_bonds = a_ints[:6], a_bonds[:10]
            if "base" not in base_cache:
                base_cache["base"] = GM.wf_instances(v0, cname, a_ints, a_bonds)
            s_ints = [x for x in skolems if x.sort() == z3.IntSort()]
            s_bonds = [x for x in skolems if x.sort() == BondS]
            for bnd in list(s_bonds):
                s_ints += [BondS.lo(bnd), BondS.hi(bnd)]
            for x in s_ints[:3]:
                for y in (s_ints + a_ints)[:4]:
                    if not x.eq(y):
                        s_bonds.append(mkb(x, y))
            if not s_ints and not s_bonds:
                return base_cache["base"]
            extra = GM.wf_instances(v0, cname, a_ints + s_ints, a_bonds + s_bonds, must=s_ints + s_bonds)
            return base_cache["base"] + extra

        pending = []

        def emit(pid, clause, fs, what, skolems=()):
            pending.append((pid, clause, fs, what, list(skolems)))

        if pid_map.get("C19") and not loopstep:
            if raised:
                emit("C19", "rejected-request-changes-nothing", [R, z3.Not(unchanged(h0, h1, g0, g1))], "a rejected request changed the graph")
                emit("C19", "failed-request-changes-nothing", [E, z3.Not(unchanged(h0, h1, g0, g1))], "a request that raised changed the graph")
            else:
                emit("C19", "ill-formed-request-raises", [R], "an ill-formed request was accepted")
        if pid_map.get("C09"):
            if raised:
                emit("C09", "well-formed-request-does-not-raise", [OK], f"a well-formed request raised {p.outcome[1]}")
            elif loopstep:
                pass  # the generic iteration of an invariant-annotated loop: its obligations are the intermediate ones below
            else:
                for cn, (sorts, getter, guard) in comps.items():
                    pts = skolem(sorts, f"{cn}")
                    exp = spec[cn](*pts) if cn in spec else getter(v0, *pts)
                    got = getter(v1, *pts)
                    g_ = guard(v1, *pts) if guard is not None else z3.BoolVal(True)
                    # `not rejected`: in the `error` case the views must be unchanged, which is what the default says
                    case = OK if cn in spec else z3.Not(R)
                    exp2 = z3.If(OK, exp, getter(v0, *pts)) if cn in spec else exp
                    emit("C09", f"view/{cn}", [z3.Not(R), *bond_norm(pts, sorts), g_, got != exp2], f"view component {cn} differs from the reference transition", skolems=pts)
                for wname, vs, body, _ in GM.wf_raw(v1, cname, tag="n", bound=alloc_top(h1)):
                    emit("C09", f"wf/{wname}", [z3.Not(R), z3.Not(body)], f"representation invariant {wname} not re-established", skolems=vs)
                autos = [f_ for f_, val_ in g1.fields.items() if getattr(val_, "auto", False)]
                obs.append(Ob(f"C09/{base}/wf/tables-are-plain-dicts#path{i}", kind, FAILED if autos else DISCHARGED, "ast",
                              detail=f"{autos} is a collections.defaultdict after the operation: a look-up of an absent key through the public views would insert it" if autos else ""))
        # intermediate obligations of this path (callee pre-conditions, loop invariants)
        for aname, apc, aass, af in p.asserts:
            if pid_map.get("C09"):
                r_, s_, dt_ = solve_assert(aass, apc, af, timeout)
                nm = f"C09/{base}/{aname}#path{i}"
                obs.append(Ob(nm, kind, DISCHARGED if r_ == z3.unsat else (FAILED if r_ == z3.sat else UNDECIDED), "z3", dt_,
                              detail="" if r_ == z3.unsat else "intermediate obligation fails"))
        flush(obs, pending, pre, instances, base, i, kind, p, sym, raised, timeout)


def flush(obs, pending, pre, instances, base, i, kind, p, sym, raised, timeout):
    """one incremental solver per path: hypotheses once, one push/check/pop per clause"""
    if not pending:
        return
    sk = []
    for _, _, _, _, s_ in pending:
        for x in s_:
            if not any(x.eq(y) for y in sk):
                sk.append(x)
    hyp = [B(f) for f in pre]
    loop_ass = p.handles.get("loop_ass") or set()
    hyp_core = [f for f in hyp if f.get_id() not in loop_ass] if loop_ass else None
    for pid, clause, fs, what, sk_ in pending:
        name = f"{pid}/{base}/{clause}#path{i}"
        t = time.time()
        r = None
        if hyp_core is not None:
            # clauses about parts of the heap no loop touches follow without the loop invariants (fewer hypotheses: sound, and stable)
            solver = z3.Solver()
            solver.set("timeout", min(timeout, 3000))
            solver.set("auto_config", False)
            solver.set("mbqi", False)
            solver.add(*hyp_core)
            for f in fs:
                solver.add(B(f))
            if solver.check() == z3.unsat:
                obs.append(Ob(name, kind, DISCHARGED, "z3", time.time() - t, evaluations=1 if kind == "bounded" else 0))
                continue
        # stage A: the quantified invariant with E-matching only (milliseconds when it works);
        # stage B/C: plus ground instances of the invariant at the clause's Skolem constants and the arguments
        for attempt in range(1 if _spent() else 3):
            solver = z3.Solver()
            solver.set("timeout", min(timeout, 3000) if attempt == 0 else (timeout if attempt == 1 else 3 * timeout))
            solver.set("auto_config", False)
            solver.set("mbqi", False)
            solver.set("random_seed", 7 * attempt)
            solver.add(*hyp)
            if attempt > 0:
                solver.add(*[B(f) for f in instances(sk_)])
                solver.add(*generic_instances(hyp, sk_))
            for f in fs:
                solver.add(B(f))
            r = solver.check()
            if r != z3.unknown:
                break
        if r == z3.unknown and not _spent():
            # a VC that is not valid usually ends `unknown` under E-matching; model-based instantiation may find the model
            goal_arrays = set()
            for f in fs:
                goal_arrays |= _array_syms(B(f))
            related = [f for f in hyp if not _array_syms(f) or (_array_syms(f) & goal_arrays)]
            for hs, allow_sat in ((related, False), (hyp, True)):
                solver = z3.Solver()
                solver.set("timeout", min(timeout, 6000) if allow_sat else timeout)
                solver.add(*hs)
                for f in fs:
                    solver.add(B(f))
                rm = solver.check()
                if rm == z3.unsat or (rm == z3.sat and allow_sat):
                    r = rm  # unsat: proved by model-based instantiation (sound whichever strategy / subset of hypotheses)
                    break
        dt = time.time() - t
        if r == z3.unsat:
            obs.append(Ob(name, kind, DISCHARGED, "z3", dt, evaluations=1 if kind == "bounded" else 0))
        elif r == z3.sat:
            m = solver.model()
            wit = {k: str(m.eval(t_, True)) for k, t_ in sym.items() if t_ is not None and z3.is_expr(t_)}
            obs.append(Ob(name, kind, FAILED, "z3", dt, detail=f"{what}; solver witness (arguments): {wit}; path outcome {p.outcome[0]} {p.outcome[1] if raised else ''}",
                          solver_output=f"sat\narguments: {wit}\n", witness={"clause": clause, "args": wit}))
        else:
            BUDGET["undecided"] += 1
            obs.append(Ob(name, kind, UNDECIDED, "z3", dt, detail=f"{what}: {solver.reason_unknown()}"))


def _consts(f):
    """uninterpreted constants (arity 0) of Int / Bond sort occurring in f"""
    out, seen, stack = [], set(), [f]
    while stack:
        e = stack.pop()
        if e.get_id() in seen:
            continue
        seen.add(e.get_id())
        if z3.is_const(e) and e.decl().kind() == z3.Z3_OP_UNINTERPRETED and (e.sort() == z3.IntSort() or e.sort() == BondS):
            out.append(e)
        if z3.is_quantifier(e):
            stack.append(e.body())
        else:
            stack.extend(e.children())
    return out


def generic_instances(hyps, skolems):
    """ground instances of pattern-less single-variable universals (bounded-iteration facts over copied tables,
    whose Select-over-Lambda bodies admit no trigger) at the clause's Skolem constants"""
    out = []
    terms = list(skolems)
    for t in list(skolems):
        if t.sort() == BondS:
            terms += [BondS.lo(t), BondS.hi(t)]
    for f in hyps:
        if z3.is_quantifier(f) and f.is_forall() and f.num_vars() == 1 and f.num_patterns() == 0:
            so = f.var_sort(0)
            for t in terms:
                if t.sort() == so:
                    out.append(z3.substitute_vars(f.body(), t))
    return out


def alloc_top(h: Heap):
    """every reference handed out up to now is below this bound"""
    return h.top()


def widen(f, h: Heap):
    """after the call the allocated range is [0, A0 + n_alloc) (+ deepcopy blocks): wf speaks about `old(r)` as
    r < A0; in the post-state the bound is the new allocation top"""
    top = getattr(h, "block_top", None)
    new_top = (top if top is not None else h.A0 + h.n_alloc + 1)
    A0p = z3.Int("A0!post")
    return z3.substitute(f, (h.A0, A0p)) if False else z3.substitute(f, (h.A0, new_top))


def verify_query(obs, world, cname, qname, contract, timeout=20000):
    BUDGET["undecided"] = 0
    mname = contract.__class__.__name__
    base = f"{REL[cname]}:{cname}.{qname}"
    try:
        paths = run_method(world, cname, mname, contract, attr_access=getattr(contract, "attr_access", None), loop_contracts=getattr(contract, "loop_contracts", None))
    except OutOfSubset as e:
        obs.append(Ob(f"E1/{base}", "proof", ERROR, detail=f"out of subset: {e}"))
        return
    for i, p in enumerate(paths):
        hd = p.handles
        if "v0" not in hd:
            obs.append(Ob(f"E1/{base}#path{i}", "proof", ERROR, detail="path ended before the call"))
            continue
        kind = "bounded" if hd.get("bounded") else "proof"
        pid_ = getattr(contract, "pid", "C19")
        for aname, apc, aass, af in p.asserts:
            r_, s_, dt_ = solve_assert(aass, apc, af, timeout)
            obs.append(Ob(f"{pid_}/{base}/{aname}#path{i}", kind, DISCHARGED if r_ == z3.unsat else (FAILED if r_ == z3.sat else UNDECIDED), "z3", dt_,
                          detail="" if r_ == z3.unsat else "intermediate obligation fails"))
        if p.outcome[0] == "loopstep":
            continue
        if hasattr(contract, "result_post"):
            if p.outcome[0] == "raise":
                r_, s_, dt_ = solve(list(p.assumptions) + list(p.pc), timeout)
                obs.append(Ob(f"{pid_}/{base}/does-not-raise#path{i}", kind, DISCHARGED if r_ == z3.unsat else (FAILED if r_ == z3.sat else UNDECIDED), "z3", dt_,
                              detail="" if r_ == z3.unsat else f"raised {p.outcome[1]}"))
            else:
                for cname_, body in contract.result_post(hd["v0"], hd["sym"], p.outcome[1], hd["h1"]):
                    r_, s_, dt_ = solve(list(p.assumptions) + list(p.pc) + [z3.Not(body)], timeout)
                    obs.append(Ob(f"{pid_}/{base}/result/{cname_}#path{i}", kind, DISCHARGED if r_ == z3.unsat else (FAILED if r_ == z3.sat else UNDECIDED), "z3", dt_,
                                  detail="" if r_ == z3.unsat else "result differs from the contract"))
        name = f"C19/{base}/lookup-changes-nothing#path{i}"
        if pid_ != "C19":
            name = f"{pid_}/{base}/changes-nothing#path{i}"
        r, s, dt = solve(list(p.assumptions) + list(p.pc) + [z3.Not(unchanged(hd["h0"], hd["h1"], hd["g0"], hd["g1"]))], timeout)
        if r == z3.unsat:
            obs.append(Ob(name, kind, DISCHARGED, "z3", dt))
        elif r == z3.sat:
            m = s.model()
            wit = {k: str(m.eval(t, True)) for k, t in hd["sym"].items() if t is not None and z3.is_expr(t)}
            obs.append(Ob(name, kind, FAILED, "z3", dt, detail=f"a look-up changed the graph (outcome {p.outcome[0]}); solver witness {wit}", solver_output=f"sat {wit}",
                          witness={"cname": cname, "method": mname, "clause": "lookup", "args": wit}))
        else:
            obs.append(Ob(name, kind, UNDECIDED, "z3", dt, detail=s.reason_unknown()))


# ------------------------------------------------------------------------------------------------ modular calls
MODIFIES = {
    # callee -> dict/set types its body may write (checked when the callee itself is verified: `frame-types`)
    "remove_atom": {"dict": ("atoms", "nbrs", "bonds", "astereo", "bstereo"), "set": ("iset",)},
}


def apply_contract(interp, g, callee_cname, mname, contract, sym):
    """A caller is checked against the callee's CONTRACT, not its body: fork on the rejected case, otherwise havoc
    what the callee may modify and assume its post-condition (views = reference transition, invariant, frame)."""
    h = heap_of(interp)
    v_pre = GM.View(h.snapshot(), Obj(g.cls, dict(g.fields)))
    R = contract.rejected(v_pre, sym, callee_cname)
    # the callee's pre-condition (its part of the invariant) is an obligation of the caller
    for wname, f in GM.wf_clauses(v_pre, callee_cname, tag="cp", use_patterns=False, bound=alloc_top(h)):
        interp.oblige(f"callee-pre/{mname}/{wname}", f)
    if interp.decide(R):
        raise PyRaise("KeyError", f"{mname}: rejected by contract")
    interp.state["n_havoc"] = interp.state.get("n_havoc", 0) + 1
    tag = f"hv{interp.state['n_havoc']}"
    mod = MODIFIES[mname]
    fields = [f for f in g.fields if f in GM.CLASS_FIELDS[callee_cname]]
    for n in mod["dict"]:
        t = H.DICT_TYPES[n]
        refs = [g.fields[f].ref for f in fields if GM.FIELD_TYPES[f].name == n]
        nd = z3.Const(f"dom_{n}!{tag}", t.dom_sort)
        nv = z3.Const(f"val_{n}!{tag}", t.val_sort)
        r = z3.Int(f"r!{tag}{n}")
        other = z3.And(*[r != x for x in refs]) if refs else z3.BoolVal(True)
        interp.assume(z3.ForAll([r], z3.Implies(other, z3.And(z3.Select(nd, r) == z3.Select(h.dom[n], r), z3.Select(nv, r) == z3.Select(h.val[n], r))),
                                patterns=[z3.Select(nd, r), z3.Select(nv, r)]))
        h.dom[n], h.val[n] = nd, nv
    old_mem = {n: h.mem[n] for n in mod["set"]}
    for n in mod["set"]:
        h.mem[n] = z3.Const(f"mem_{n}!{tag}", H.SET_TYPES[n].mem_sort)
    v_post = GM.View(h.snapshot(), Obj(g.cls, dict(g.fields)))
    spec = contract.spec(v_pre, sym, callee_cname)
    for cn, (sorts, getter, guard) in components_for(callee_cname).items():
        pts = skolem(sorts, f"{tag}{cn}")
        exp = spec[cn](*pts) if cn in spec else getter(v_pre, *pts)
        body = getter(v_post, *pts) == exp
        if guard is not None:
            body = z3.Implies(guard(v_post, *pts), body)
        norm = bond_norm(pts, sorts)
        if norm:
            body = z3.Implies(z3.And(*norm), body)
        pat = PATTERNS[cn](v_post, *pts)
        interp.assume(z3.ForAll(pts, body, patterns=pat))
    # attribute dictionaries and (for the remaining atoms) neighbour-set objects keep their identity
    x = z3.Int(f"x!{tag}")
    b = z3.Const(f"b!{tag}", BondS)
    interp.assume(z3.ForAll([x], z3.Implies(v_post.atom(x), z3.And(v_post.aref(x) == v_pre.aref(x), v_post.nref(x) == v_pre.nref(x))), patterns=[v_post.aref(x)]))
    interp.assume(z3.ForAll([b], z3.Implies(v_post.bond(b), v_post.bref(b) == v_pre.bref(b)), patterns=[v_post.bref(b)]))
    for wname, f in GM.wf_clauses(v_post, callee_cname, tag=tag, bound=alloc_top(h)):
        interp.assume(f)
    return None


# ------------------------------------------------------------------------------------------------ derivations
def invert_contract(interp, obj, args, kwargs):
    """callee contract of _StereoMixin.invert, used at its call sites: the result has the class and atoms of self
    and the parity sign flipped (GM.d_invert).  The real body is checked against it by verify_invert()."""
    if args or kwargs:
        raise PyRaise("TypeError", "invert() takes no arguments")
    t = H.descr_term(obj)
    cands = list(getattr(obj, "candidates", None) or [obj.cls.name])
    return H.descr_obj(interp, GM.d_invert(t), cands)


DESCR_CONTRACTS = {("stereodescriptors.py", "_StereoMixin.invert"): invert_contract}


def verify_invert(obs, world, pid="C06", timeout=10000):
    """the real _StereoMixin.invert against its contract, for every descriptor class and an arbitrary descriptor"""
    for cname in H.ATOM_DESCR + H.BOND_DESCR:
        it = Interp(world)
        GM.install(it)

        def thunk(interp, handles, cname=cname):
            interp.state["heap"] = Heap("pre")
            o, t = GM.sym_descr(interp, "self", [cname])
            before = (o.fields["atoms"], o.fields["parity"])
            c, m = o.cls.find("invert")
            handles.update(t=t, defined_in=f"{c.module.relpath}:{c.name}")
            res = interp.call_value(BoundMethod(o, m[1], c), [], {})
            handles["res"] = res
            handles["self_same"] = o.fields["atoms"] is before[0] and o.fields["parity"] is before[1]
            return res

        base = f"stereodescriptors.py:{cname}.invert"
        try:
            paths = it.run(thunk)
        except OutOfSubset as e:
            obs.append(Ob(f"{pid}/{base}", "proof", ERROR, detail=f"out of subset: {e}"))
            continue
        if not paths:
            obs.append(Ob(f"{pid}/{base}", "proof", ERROR, detail="no paths"))
        for i, p in enumerate(paths):
            hd = p.handles
            pre = list(p.assumptions) + list(p.pc)
            if "defined_in" not in hd:
                r_, s_, dt_ = solve(pre, timeout)  # path left before the call: must be infeasible
                if r_ != z3.unsat:
                    obs.append(Ob(f"{pid}/{base}/setup#path{i}", "proof", ERROR, "z3", dt_, detail="path ended before the call"))
                continue
            if (hd.get("defined_in"), ) != ("stereodescriptors.py:_StereoMixin",):
                obs.append(Ob(f"{pid}/{base}/contract-applies#path{i}", "proof", FAILED, "ast", detail=f"invert is defined in {hd.get('defined_in')}, the call-site contract is stated for _StereoMixin.invert"))
                continue
            if p.outcome[0] == "raise":
                r_, s_, dt_ = solve(pre, timeout)
                obs.append(Ob(f"{pid}/{base}/does-not-raise#path{i}", "proof", DISCHARGED if r_ == z3.unsat else (FAILED if r_ == z3.sat else UNDECIDED), "z3", dt_,
                              detail="" if r_ == z3.unsat else f"invert raised {p.outcome[1]}", witness=_model_dict(s_, {"self": hd["t"]}) if r_ == z3.sat else None))
                continue
            res = hd["res"]
            ok_obj = isinstance(res, Obj) and (hasattr(res, "term") or "atoms" in res.fields)
            if not ok_obj:
                obs.append(Ob(f"{pid}/{base}/result-is-a-descriptor#path{i}", "proof", FAILED, "ast", detail=f"result is {type(res).__name__}"))
                continue
            rt = H.descr_term(res)
            r_, s_, dt_ = solve(pre + [rt != GM.d_invert(hd["t"])], timeout)
            obs.append(Ob(f"{pid}/{base}/result-is-the-mirror-image#path{i}", "proof", DISCHARGED if r_ == z3.unsat else (FAILED if r_ == z3.sat else UNDECIDED), "z3", dt_,
                          detail="" if r_ == z3.unsat else "invert() does not return class, atoms and flipped parity sign of self",
                          witness=_model_dict(s_, {"self": hd["t"], "result": rt}) if r_ == z3.sat else None,
                          replay_code=_invert_replay(s_, hd["t"], cname) if r_ == z3.sat else None))
            obs.append(Ob(f"{pid}/{base}/self-not-modified#path{i}", "proof", DISCHARGED if hd.get("self_same") else FAILED, "ast",
                          detail="" if hd.get("self_same") else "invert() assigned to a field of self"))


def verify_descr_init(obs, world, pid="C11", timeout=10000):
    """the constructor contract used for `d.__class__(image of d.atoms, d.parity)` while the class of d is still open
    (heap.LazyDescrClass): every descriptor class is built by _StereoMixin.__init__, which accepts a tuple of the class's
    length and stores atoms and parity unchanged"""
    for cname in H.ATOM_DESCR + H.BOND_DESCR:
        base = f"stereodescriptors.py:{cname}.__init__"
        cls = world.cls(cname)
        c, m = cls.find("__init__")
        where = f"{c.module.relpath}:{c.name}" if c is not None else None
        obs.append(Ob(f"{pid}/{base}/constructor-is-the-shared-one", "proof", DISCHARGED if where == "stereodescriptors.py:_StereoMixin" else FAILED, "ast",
                      detail="" if where == "stereodescriptors.py:_StereoMixin" else f"__init__ is defined in {where}; the same-class constructor contract is stated for _StereoMixin.__init__"))
        it = Interp(world)
        GM.install(it)

        def thunk(interp, handles, cname=cname, cls=cls):
            interp.state["heap"] = Heap("pre")
            o, t = GM.sym_descr(interp, "src", [cname])
            atoms = tuple(H.term_oi(GM.d_slot(t, j)) for j in range(H.DESCR_LEN[cname]))
            par = H.term_oi(H.DescrS.par(t))
            handles["t"] = t
            res = interp.instantiate(cls, [atoms, par], {})
            handles["res"] = res
            return res

        try:
            paths = it.run(thunk)
        except OutOfSubset as e:
            obs.append(Ob(f"{pid}/{base}", "proof", ERROR, detail=f"out of subset: {e}"))
            continue
        for i, p in enumerate(paths):
            hd = p.handles
            pre = list(p.assumptions) + list(p.pc)
            if "t" not in hd or p.outcome[0] == "raise":
                r_, s_, dt_ = solve(pre, timeout)
                obs.append(Ob(f"{pid}/{base}/accepts-a-tuple-of-the-class-length#path{i}", "proof", DISCHARGED if r_ == z3.unsat else (FAILED if r_ == z3.sat else UNDECIDED), "z3", dt_,
                              detail="" if r_ == z3.unsat else f"constructor raised {p.outcome[1:]}"))
                continue
            r_, s_, dt_ = solve(pre + [H.descr_term(hd["res"]) != hd["t"]], timeout)
            obs.append(Ob(f"{pid}/{base}/stores-atoms-and-parity-unchanged#path{i}", "proof", DISCHARGED if r_ == z3.unsat else (FAILED if r_ == z3.sat else UNDECIDED), "z3", dt_,
                          detail="" if r_ == z3.unsat else "the constructed descriptor differs from (class, atoms, parity)"))


def _invert_replay(solver, t, cname):
    """the solver's counter-model as a concrete descriptor, replayed on the real invert()"""
    try:
        m = solver.model()

        def oi(term):
            v = m.eval(term, model_completion=True)
            return None if z3.is_true(m.eval(H.OIntS.is_ONone(term), model_completion=True)) else m.eval(H.OIntS.ov(v), model_completion=True).as_long()

        atoms = tuple(oi(GM.d_slot(t, j)) for j in range(H.DESCR_LEN[cname]))
        par = oi(H.DescrS.par(t))
    except Exception:  # noqa
        return None
    return (f"from stereomolgraph.stereodescriptors import {cname}\nd = {cname}({atoms!r}, {par!r})\nr = d.invert()\n"
            f"exp = -d.parity if d.parity in (1, -1) else d.parity\nprint(d, '->', r, 'expected parity', exp)\n"
            f"ok = type(r) is type(d) and tuple(r.atoms) == tuple(d.atoms) and r.parity == exp and tuple(d.atoms) == {atoms!r} and d.parity == {par!r}\n"
            "print('property holds on this case' if ok else 'VIOLATION reproduced')\nsys.exit(0 if ok else 1)\n")


def _model_dict(solver, terms):
    try:
        m = solver.model()
        return {k: str(m.eval(v, model_completion=True)) for k, v in terms.items()}
    except Exception:  # noqa
        return None


def run_derivation(world, cname, contract, iter_bound=1, chg_one_slot=False, loop_contracts=None, callee_contracts=None, focus_loop=None, summarise=None):
    it = Interp(world)
    GM.install(it)
    it.prune = prune
    if summarise:
        from . import summarise as SM
        from .interp import Builtin as _B2

        it.builtins["__comprehension__"] = _B2("__comprehension__", SM.hook)
    for key, fn in (callee_contracts or {}).items():
        it.contracts[key] = fn
    cls = world.cls(cname)
    from .interp import Builtin as _B
    it.builtins["__for__"] = _B("__for__", for_hook)

    def thunk(interp, handles):
        interp.state["heap"] = Heap("pre")
        interp.state["iter_bound"] = iter_bound
        interp.state["chg_one_slot"] = chg_one_slot
        interp.state["loop_contracts"] = loop_contracts
        interp.state["focus_loop"] = focus_loop
        interp.state["summarise"] = summarise
        h = heap_of(interp)
        g = GM.sym_graph(interp, cname, "g_")
        interp.assume(h.A0 >= 0)
        for ax in H.background_axioms():
            interp.assume(ax)
        h0 = h.snapshot()
        g0 = Obj(g.cls, dict(g.fields))
        v0 = GM.View(h0, g0)
        for name, f in GM.wf_clauses(v0, cname):
            interp.assume(f)
        H._CURRENT["interp"] = interp
        interp.state["wf_view"] = (v0, cname)
        (kind, name, pos, kw), sym = contract.call(interp, g, cname)
        interp.state["contract_sym"] = sym
        interp.assume(contract.pre(v0, sym, cname))
        for t_ in sym.values():
            for tt in (t_ if isinstance(t_, list) else [t_]):
                if tt is not None and z3.is_expr(tt) and not str(tt).endswith("_ref"):
                    H.note_ground(interp, tt)
        handles.update(g0=g0, g1=g, h0=h0, h1=h, v0=v0, sym=sym)
        try:
            if kind == "method":
                c, m = cls.find(name)
                res = interp.call_value(BoundMethod(g, m[1], c) if name not in c.classmethods else BoundMethod(ClassRef(cls), m[1], c), pos, kw)
            else:
                res = interp.instantiate(world.cls(name), pos, kw)
            handles["res"] = res
        finally:
            handles["bounded"] = bool(interp.state.get("bounded_iteration"))
            handles["focused"] = bool(interp.state.get("focused"))
            handles["loop_ass"] = set(interp.state.get("loop_ass", ()))
            handles["ground"] = (list(interp.state.get("ground_ints", [])), list(interp.state.get("ground_bonds", [])))
        return res

    return it.run(thunk)


def fresh_clauses(vR: "GM.View", A0, cname):
    """C10: every mutable object reachable from the result was allocated during the call"""
    x = z3.Int("fx")
    b = z3.Const("fb", BondS)
    cl = []
    for nm, r in (("atom-table", vR.AT), ("neighbour-table", vR.NT), ("bond-table", vR.BT), ("atom-stereo-table", vR.AS), ("bond-stereo-table", vR.BS),
                  ("atom-change-table", vR.AC), ("bond-change-table", vR.BC)):
        if r is not None:
            cl.append((f"{nm}-is-fresh", [], r >= A0))
    cl.append(("atom-attribute-dicts-are-fresh", [x], z3.Implies(vR.atom(x), vR.aref(x) >= A0)))
    cl.append(("neighbour-sets-are-fresh", [x], z3.Implies(vR.atom(x), vR.nref(x) >= A0)))
    cl.append(("bond-attribute-dicts-are-fresh", [b], z3.Implies(vR.bond(b), vR.bref(b) >= A0)))
    if vR.AC is not None:
        cl.append(("atom-change-dicts-are-fresh", [x], z3.Implies(vR.ac_has(x), vR.ac_ref(x) >= A0)))
        cl.append(("bond-change-dicts-are-fresh", [b], z3.Implies(vR.bc_has(b), vR.bc_ref(b) >= A0)))
    return cl


def verify_derivation(obs, world, cname, dname, contract, pid, timeout=20000, iter_bound=1, chg_one_slot=False, want=("view", "wf", "fresh", "source"), loop_contracts=None,
                      callee_contracts=None, focus_loop=None, summarise=None, shard=None):
    BUDGET["undecided"] = 0
    base = f"{REL[cname]}:{cname}.{dname}"
    try:
        paths = run_derivation(world, cname, contract, iter_bound, chg_one_slot, loop_contracts, callee_contracts, focus_loop, summarise)
    except OutOfSubset as e:
        obs.append(Ob(f"E1/{base}", "proof", ERROR, detail=f"out of subset: {e}"))
        return
    if not paths:
        obs.append(Ob(f"E1/{base}", "proof", ERROR, detail="no paths"))
        return
    rcls = contract.result_class(cname)  # views / invariant / freshness are those of the RESULT's class
    comps = components_for(rcls)
    for i_, p in enumerate(paths):
        i = i_ if focus_loop is None else f"{i_}@L{focus_loop}"  # path labels stay unique across the per-loop tasks
        hd = p.handles
        if focus_loop and not hd.get("focused"):
            continue  # fewer loops than focus_loop on this path: covered by the other tasks
        if shard is not None:
            # the paths of one loop are shared out among several worker processes by a key of the path condition (every
            # feasible path is enumerated by every worker with the same recorded decisions, whatever the pruning managed
            # to cut elsewhere, so exactly one worker takes it)
            import hashlib

            key_ = int(hashlib.md5("|".join(z3.simplify(B(f)).sexpr() for f in p.pc).encode()).hexdigest()[:8], 16)
            if key_ % shard[1] != shard[0]:
                continue
            i = f"{key_:08x}@L{focus_loop}"  # path label: stable across runs
        if "v0" not in hd:
            obs.append(Ob(f"E1/{base}#path{i}", "proof", ERROR, detail="path ended before the call"))
            continue
        v0, sym, h0, h1, g0, g1 = hd["v0"], hd["sym"], hd["h0"], hd["h1"], hd["g0"], hd["g1"]
        kind = "bounded" if hd.get("bounded") else "proof"
        pre = list(p.assumptions) + list(p.pc)
        raised = p.outcome[0] == "raise"
        sym_flat = {k: v for k, v in sym.items() if v is not None and z3.is_expr(v)}
        arg_ints = [t for t in hd.get("ground", ([], []))[0]]
        arg_bonds = [t for t in hd.get("ground", ([], []))[1]]
        base_cache = {}

        def instances(skolems, v0=v0, arg_ints=arg_ints, arg_bonds=arg_bonds, base_cache=base_cache):
            a_ints = list(arg_ints)
            a_bonds = list(arg_bonds)
            for bnd in list(a_bonds):
                a_ints += [BondS.lo(bnd), BondS.hi(bnd)]
            for x in a_ints[:4]:
                for y in a_ints[:4]:
                    if not x.eq(y):
                        a_bonds.append(mkb(x, y))
            a_ints, a_bonds = a_ints[:6], a_bonds[:10]
            if "base" not in base_cache:
                base_cache["base"] = GM.wf_instances(v0, cname, a_ints, a_bonds)
            s_ints = [x for x in skolems if x.sort() == z3.IntSort()]
            s_bonds = [x for x in skolems if x.sort() == BondS]
            for bnd in list(s_bonds):
                s_ints += [BondS.lo(bnd), BondS.hi(bnd)]
            if not s_ints and not s_bonds:
                return base_cache["base"]
            return base_cache["base"] + GM.wf_instances(v0, cname, a_ints + s_ints, a_bonds + s_bonds, must=s_ints + s_bonds)

        pending = []

        def emit(pid_, clause, fs, what, skolems=()):
            pending.append((pid_, clause, fs, what, list(skolems)))

        for aname, apc, aass, af in p.asserts:
            r_, s_, dt_ = solve_assert(aass, apc, af, timeout)
            obs.append(Ob(f"{pid}/{base}/{aname}#path{i}", kind, DISCHARGED if r_ == z3.unsat else (FAILED if r_ == z3.sat else UNDECIDED), "z3", dt_,
                          detail="" if r_ == z3.unsat else "intermediate obligation fails"))
        if p.outcome[0] == "loopstep":
            continue
        if raised:
            emit(pid, "does-not-raise", [z3.BoolVal(True)], f"the derivation raised {p.outcome[1]}")
        else:
            R = hd.get("res")
            if not isinstance(R, Obj) or R.cls.name != contract.result_class(cname):
                obs.append(Ob(f"{pid}/{base}/result-class#path{i}", kind, FAILED, "ast", detail=f"result is {getattr(getattr(R, 'cls', None), 'name', type(R).__name__)}"))
                continue
            if getattr(contract, "result_is_self", False) and (focus_loop in (None, 0)) and ("view" in want):
                obs.append(Ob(f"{pid}/{base}/returns-the-graph-itself#path{i}", kind, DISCHARGED if R is g1 else FAILED, "ast",
                              detail="" if R is g1 else "the in-place operation returned another object"))
            if "wf" in want and focus_loop in (None, 0):
                autos = [f_ for f_, val_ in R.fields.items() if getattr(val_, "auto", False)]
                obs.append(Ob(f"{pid}/{base}/result-wf/tables-are-plain-dicts#path{i}", kind, FAILED if autos else DISCHARGED, "ast",
                              detail=f"{autos} of the result is a collections.defaultdict: a look-up of an absent key through the public views would insert it" if autos else ""))
            vR = GM.View(h1, R)
            spec = contract.spec(v0, sym, cname)
            if "view" in want:
                for cn, (sorts, getter, guard) in comps.items():
                    pts = skolem(sorts, f"{cn}")
                    exp = spec[cn](*pts) if cn in spec else getter(v0, *pts)
                    g_ = guard(vR, *pts) if guard is not None else z3.BoolVal(True)
                    emit(pid, f"result-view/{cn}", [*bond_norm(pts, sorts), g_, getter(vR, *pts) != exp], f"view component {cn} of the result differs from the reference", skolems=pts)
            if "wf" in want:
                for wname, vs, body, _ in GM.wf_raw(vR, rcls, tag="n", bound=alloc_top(h1)):
                    emit(pid, f"result-wf/{wname}", [z3.Not(body)], f"result violates {wname}", skolems=vs)
            if "fresh" in want and contract.result_is_new:
                for fname, vs, body in fresh_clauses(vR, h0.A0, rcls):
                    emit("C10", f"fresh/{fname}", [z3.Not(body)], f"result shares a mutable object with its source ({fname})", skolems=vs)
            if "source" in want and contract.source_untouched:
                emit(pid if pid != "C10" else "C10", "source-untouched", [z3.Not(unchanged(h0, h1, g0, g1))], "the derivation modified its source")
                for j_, other in enumerate(getattr(contract, "other_sources", lambda: [])()):
                    emit(pid, f"source-untouched/argument-{j_ + 2}", [z3.Not(unchanged(h0, h1, other, other, tag=f"u{j_}"))], "the derivation modified one of its argument graphs")
        flush(obs, pending, pre, instances, base, i, kind, p, sym_flat, raised, timeout)


# ------------------------------------------------------------------------------------------------ invariant-annotated loops
import ast as _ast


class LoopCtx:
    def __init__(self, interp, fr, g, h_entry, C):
        self.interp, self.fr, self.g, self.h_entry, self.C = interp, fr, g, h_entry, C
        # `self` of the method at loop entry (None inside a classmethod such as compose)
        self.g_entry = Obj(g.cls, dict(g.fields)) if isinstance(g, Obj) and "_atom_attrs" in g.fields else None
        self.v_entry = GM.View(h_entry, self.g_entry) if self.g_entry is not None else None

    def view(self):
        return GM.View(heap_of(self.interp).snapshot(), Obj(self.g.cls, dict(self.g.fields)))


def loop_ordinal(func, node):
    loops = sorted((n for n in _ast.walk(func) if isinstance(n, (_ast.For, _ast.While))), key=lambda n: (n.lineno, n.col_offset))
    return loops.index(node)


def for_hook(interp, s, fr, iterable):
    from .interp import LoopStepDone, NotHandled, _Continue

    contracts = interp.state.get("loop_contracts")
    if not contracts or fr.func is None or fr.defcls is None:
        return NotHandled
    key = (fr.module.relpath, f"{fr.defcls.name}.{fr.func.name}", loop_ordinal(fr.func, s))
    cls = contracts.get(key)
    if cls is None:
        return NotHandled
    lc = cls()
    h = heap_of(interp)
    g = fr.env.get("self")
    # membership array of the collection being traversed and how an element is bound to the loop target
    if isinstance(iterable, H.DictKeys):
        C, esort, src = z3.Select(h.dom[iterable.d.t.name], iterable.d.ref), iterable.d.t.ksort, None
    elif isinstance(iterable, H.SymSeq):
        C, esort = iterable.arr, iterable.esort
        src = iterable.source
    elif isinstance(iterable, H.DictItems):
        C, esort, src = z3.Select(h.dom[iterable.d.t.name], iterable.d.ref), iterable.d.t.ksort, iterable.d
    elif isinstance(iterable, H.SetRef):
        C, esort, src = iterable.arr(interp), iterable.t.esort, None
    else:
        return NotHandled
    if hasattr(lc, "setup"):
        lc.setup(ctx_iter := None, iterable) if False else lc.setup(None, iterable)
    interp.state["n_loops"] = interp.state.get("n_loops", 0) + 1
    tag = f"L{interp.state['n_loops']}"
    # local accumulators (`acc = set()` before the loop) become heap objects so that the invariant can speak about them
    from .values import FSet as _FSet

    for name, tname in getattr(lc, "accumulators", {}).items():
        cur = fr.env.get(name)
        if isinstance(cur, _FSet) and not cur.elems:
            fr.env[name] = H.SetRef(H.SET_TYPES[tname], h.s_new(H.SET_TYPES[tname]))
        elif isinstance(cur, dict) and not cur and tname in H.DICT_TYPES:
            fr.env[name] = H.DictRef(H.DICT_TYPES[tname], h.d_new(H.DICT_TYPES[tname]))
            if isinstance(cur, GM.AutoDict):
                fr.env[name].auto = True  # defaultdict: [] on a missing key inserts a new empty inner dict
    ctx = LoopCtx(interp, fr, g, h.snapshot(), C)
    empty = z3.K(esort, z3.BoolVal(False))
    # focus_loop = n: only the n-th loop reached is checked (init + generic step), the others are summarised by their
    # invariants; focus_loop = 0: every loop summarised, the path runs to the end (lets the loops be verified in parallel)
    focus = interp.state.get("focus_loop")
    nth = interp.state["n_loops"]
    if focus is None or focus == nth:
        for name, f in lc.inv(ctx, empty):
            interp.oblige(f"loop{key[2]}-invariant-holds-initially/{name}", f)
    # havoc everything the body may modify
    for n in lc.modifies_dict_dom:
        h.dom[n] = z3.Const(f"dom_{n}!{tag}", H.DICT_TYPES[n].dom_sort)
    for n in lc.modifies_dict_val:
        h.val[n] = z3.Const(f"val_{n}!{tag}", H.DICT_TYPES[n].val_sort)
    for n in lc.modifies_set:
        h.mem[n] = z3.Const(f"mem_{n}!{tag}", H.SET_TYPES[n].mem_sort)
    if getattr(lc, "allocates", False):
        h.havoc_alloc(interp, tag)
    if (focus == nth) if focus is not None else interp.decide(z3.Bool(f"generic_iteration!{tag}")):
        interp.state["focused"] = True
        done = z3.Const(f"done!{tag}", z3.ArraySort(esort, z3.BoolSort()))
        x = z3.Const(f"x!{tag}", esort)
        for name, f in lc.inv(ctx, done):
            interp.assume(f)
            interp.state.setdefault("loop_ass", set()).add(B(f).get_id())
        interp.assume(z3.And(z3.Select(C, x), z3.Not(z3.Select(done, x))))
        H.note_ground(interp, x)
        if hasattr(lc, "hints"):
            interp.state.setdefault("ground_refs", []).extend(lc.hints(ctx, x))
        if src is not None:  # items of a dict: (key, value)
            kk = H.BondVal(x) if esort == BondS else x
            elem = (kk, src.wrap(interp, ctx.h_entry.d_get(src.t, src.ref, x)))
        else:
            elem = H.BondVal(x) if esort == BondS else x
        interp.assign(s.target, elem, fr)
        try:
            interp.block(s.body, fr)
        except _Continue:
            pass
        for name, f in lc.inv(ctx, z3.Store(done, x, True)):
            interp.oblige(f"loop{key[2]}-invariant-preserved/{name}", f)
        raise LoopStepDone()
    for name, f in lc.inv(ctx, C):
        interp.assume(f)
        interp.state.setdefault("loop_ass", set()).add(B(f).get_id())
    interp.block(s.orelse, fr)
    return None
