"""Bounded contracts for the coordinate side: C07 (perception depends only on the 3-D shape) and
C20 (XYZ text round trip, distance connectivity)."""
from __future__ import annotations

import glob
import itertools
import math
import os
import random

import numpy as np

from .. import REPO
from ..spec.groups import FIGS
from ..spec.refmodel import Ref, descr_eq, descr_invert, descr_map, snapshot
from .harness import Group, safe

RADII = None


def radii():
    global RADII
    if RADII is None:
        from stereomolgraph.periodic_table import COVALENT_RADII

        RADII = dict(COVALENT_RADII)
    return RADII


def rot(rng):
    q = np.array([rng.gauss(0, 1) for _ in range(4)])
    q /= np.linalg.norm(q)
    a, b, c, d = q
    return np.array([[a*a+b*b-c*c-d*d, 2*(b*c-a*d), 2*(b*d+a*c)],
                     [2*(b*c+a*d), a*a-b*b+c*c-d*d, 2*(c*d-a*b)],
                     [2*(b*d-a*c), 2*(c*d+a*b), a*a-b*b-c*c+d*d]])


def geometry(elems, coords):
    from stereomolgraph.coords import Geometry

    return Geometry(list(elems), np.array(coords, dtype=float))


def template(cname, rng, noise=0.03):
    """centre + ligands of pairwise different elements on the idealised figure, bond lengths well inside the
    bonding threshold, ligand-ligand distances well outside"""
    R = radii()
    fig = FIGS[cname]
    k = len(fig) - 1
    centre = {"Tetrahedral": 14, "SquarePlanar": 78, "TrigonalBipyramidal": 15, "Octahedral": 16}[cname]
    ligs = rng.sample([1, 9, 17, 8, 7, 6, 35][: max(k + 1, 5)], k)
    pts = [np.zeros(3)]
    for i in range(1, k + 1):
        v = np.array(fig[i], float)
        v = v / np.linalg.norm(v)
        d = 0.98 * (R[centre] + R[ligs[i - 1]]) * 1.0
        pts.append(v * d + np.array([rng.gauss(0, noise) for _ in range(3)]))
    elems = [centre] + ligs
    # general position check: centre-ligand bonded with margin, ligand-ligand not bonded with margin
    for i in range(1, k + 1):
        if np.linalg.norm(pts[i]) > 1.1 * (R[centre] + R[ligs[i - 1]]):
            return None
        for j in range(i + 1, k + 1):
            if np.linalg.norm(pts[i] - pts[j]) < 1.3 * (R[ligs[i - 1]] + R[ligs[j - 1]]):
                return None
    return elems, np.array(pts)


def ethene_like(rng, twist=0.0, noise=0.02):
    # X(0)Y(1)C(2)=C(3)Z(4)W(5)
    subs = rng.sample([1, 9, 17, 35], 4)
    elems = [subs[0], subs[1], 6, 6, subs[2], subs[3]]
    R = radii()
    pts = np.zeros((6, 3))
    pts[2] = (-0.67, 0, 0)
    pts[3] = (0.67, 0, 0)
    for idx, c, ang in ((0, 2, 120), (1, 2, -120), (4, 3, 60), (5, 3, -60)):
        d = 0.95 * (R[6] + R[elems[idx]])
        a = math.radians(ang)
        v = np.array([math.cos(a), math.sin(a), 0.0]) * d
        pts[idx] = pts[c] + v
    pts += np.array([[rng.gauss(0, noise) for _ in range(3)] for _ in range(6)])
    return elems, pts


def transform(elems, pts, rng, reflect=False, big=False):
    n = len(elems)
    perm = list(range(n))
    rng.shuffle(perm)  # new index i holds old atom perm[i]
    Rm = rot(rng)
    if reflect:
        Rm = Rm @ np.diag([1, 1, -1])
    t = np.array([rng.uniform(-30, 30) for _ in range(3)]) * (1000 if big else 1)
    new_pts = (pts @ Rm.T + t)[perm]
    new_elems = [elems[p] for p in perm]
    old_to_new = {old: new for new, old in enumerate(perm)}
    return new_elems, new_pts, old_to_new


def same_graph(got: Ref, exp: Ref):
    """identical atoms/elements/bonds; descriptors equal as spatial arrangements (oracle groups)"""
    if {a: v["atom_type"] for a, v in got.atoms.items()} != {a: v["atom_type"] for a, v in exp.atoms.items()}:
        return "atoms/elements differ"
    if set(got.bonds) != set(exp.bonds):
        return f"bonds differ: {sorted(map(sorted, set(got.bonds) ^ set(exp.bonds)))}"
    if set(got.atom_stereo) != set(exp.atom_stereo):
        return f"atom stereo on {sorted(got.atom_stereo)} vs {sorted(exp.atom_stereo)}"
    for a, d in exp.atom_stereo.items():
        if not descr_eq(got.atom_stereo[a], d):
            return f"atom {a}: {got.atom_stereo[a]} vs expected {d}"
    if set(got.bond_stereo) != set(exp.bond_stereo):
        return f"bond stereo on {sorted(map(sorted, got.bond_stereo))} vs {sorted(map(sorted, exp.bond_stereo))}"
    for b, d in exp.bond_stereo.items():
        if not descr_eq(got.bond_stereo[b], d):
            return f"bond {sorted(b)}: {got.bond_stereo[b]} vs expected {d}"
    return None


def perceive(elems, pts):
    from stereomolgraph import StereoMolGraph

    return StereoMolGraph.from_geometry(geometry(elems, pts))


def quad_distances(P):
    """distance of each of four points from the plane through the other three"""
    out = []
    for i in range(4):
        o = [P[j] for j in range(4) if j != i]
        n = np.cross(o[0] - o[1], o[2] - o[1])
        nn = np.linalg.norm(n)
        out.append(abs(np.dot(n / nn, P[i] - o[1])) if nn > 1e-12 else 0.0)
    return out


def planarity_robust(P, thr=1.0, eps=1e-6):
    """True when `are_planar(P)` cannot depend on the order of the points: some quadruple has every point further than
    thr from the plane of the others, or in every quadruple every point is within thr"""
    P = [np.asarray(p, float) for p in P]
    if len(P) < 4:
        return True
    all_in = True
    for q in itertools.combinations(range(len(P)), 4):
        d = quad_distances([P[i] for i in q])
        if min(d) > thr + eps:
            return True
        if max(d) > thr - eps:
            all_in = False
    return all_in


def on_planarity_threshold(g, pts):
    """does the perception of this geometry consult are_planar on a point set whose answer depends on the order?
    (such a geometry sits on the threshold of the order-dependent predicate: outside 'general position')"""
    pts = np.asarray(pts, float)
    for a in g.atoms:
        nb = sorted(g.bonded_to(a))
        if len(nb) in (4, 5) and not planarity_robust(pts[nb]):
            return True
        if len(nb) == 6:
            for q in itertools.combinations(nb, 4):
                if not planarity_robust(pts[list(q)]):
                    return True
        if len(nb) == 3:
            for n in nb:
                second = sorted(set(g.bonded_to(n)) - {a})
                if len(second) == 2:
                    six = [x for x in nb if x != n] + [a, n] + second
                    if not planarity_robust(pts[six]):
                        return True
    return False


def c07_case(elems, pts, new_elems, new_pts, old_to_new, reflect):
    g0, e0 = safe(lambda: perceive(elems, pts))
    if not e0 and on_planarity_threshold(g0, pts):
        return True, ""  # on a planarity threshold: outside the property's domain (see the are_planar order-independence group)
    g1, e1 = safe(lambda: perceive(new_elems, new_pts))
    if e0 or e1:
        if bool(e0) == bool(e1):
            return True, ""  # perception refuses both (e.g. an assertion on a degenerate arrangement): not a shape dependence
        return False, f"perception raised for one of the two equivalent inputs: {e0} / {e1}"
    exp = snapshot(g0).relabel(old_to_new.get)
    if reflect:
        exp = exp.mirror()
    why = same_graph(snapshot(g1), exp)
    if why:
        return False, why
    if not g1.is_stereo_valid() or not g0.is_stereo_valid():
        return False, "perceived graph is not stereo-valid (descriptor not expressed in the identifiers of bonded neighbours)"
    return True, ""


def c07_body(elems, pts, new_elems, new_pts, old_to_new, reflect):
    return (f"import numpy as np\nfrom vf.e3.geom import c07_case\nok, why = c07_case({list(elems)!r}, np.array({np.asarray(pts).tolist()!r}), {list(new_elems)!r}, "
            f"np.array({np.asarray(new_pts).tolist()!r}), {old_to_new!r}, {reflect!r})\nprint(why)\n")


def c07_cutoff_case(perm):
    """CHFBr-Cl with a stretched C-Cl bond (2.35 A, beyond the default cutoff) and a caller-tuned cutoff given for the element pair
    in ONE order: the perceived graph may not depend on the order of the atoms"""
    from stereomolgraph import StereoMolGraph
    from stereomolgraph.coords import BondsFromDistance, Geometry
    from stereomolgraph.periodic_table import PERIODIC_TABLE

    t = np.array([[1, 1, 1], [1, -1, -1], [-1, 1, -1], [-1, -1, 1]]) / math.sqrt(3)
    symbols = ["C", "H", "F", "Br", "Cl"]
    coords = np.vstack([np.zeros(3)] + [v * l for v, l in zip(t, (1.09, 1.36, 1.94, 2.35))]) + np.array([0.3, -1.2, 2.0])

    def sf():
        f = BondsFromDistance()
        f.connectivity_cutoff[(PERIODIC_TABLE["C"], PERIODIC_TABLE["Cl"])] = 2.6
        return f

    ref = StereoMolGraph.from_geometry(Geometry(symbols, coords), sf())
    g = StereoMolGraph.from_geometry(Geometry([symbols[p] for p in perm], coords[list(perm)]), sf())
    back = {new: old for new, old in enumerate(perm)}
    got = {frozenset(back[a] for a in b) for b in g.bonds}
    exp = {frozenset(b) for b in ref.bonds}
    if got != exp:
        return False, f"atom order {perm}: bonds {sorted(map(sorted, got))} instead of {sorted(map(sorted, exp))}"
    if (g.get_atom_stereo(perm.index(0)) is None) != (ref.get_atom_stereo(0) is None):
        return False, f"atom order {perm}: descriptor of the centre {'lost' if g.get_atom_stereo(perm.index(0)) is None else 'appeared'}"
    return True, ""


def read_xyz_frames(path):
    from stereomolgraph.coords import Geometry

    txt = open(path).read().splitlines()
    frames, i = [], 0
    while i < len(txt):
        if not txt[i].strip():
            i += 1
            continue
        n = int(txt[i].split()[0])
        block = "\n".join(txt[i: i + n + 2]) + "\n"
        frames.append(Geometry.from_xyz(block))
        i += n + 2
    return frames


def run_c07(rep, tier, seed):
    rng = random.Random(seed + 7)
    distinct = 0
    n_tr = 4 if tier == "quick" else 20
    for cname in ("Tetrahedral", "SquarePlanar", "TrigonalBipyramidal", "Octahedral"):
        G = {n: Group(rep, f"C07/bounded/{cname}-template/{n}") for n in ("rigid-motion-and-atom-reordering", "reflection-gives-the-enantiomer", "centre-not-first-atom")}
        for _ in range(6 if tier == "quick" else 40):
            tpl = None
            while tpl is None:
                tpl = template(cname, rng)
            elems, pts = tpl
            distinct += 1
            for v in range(n_tr):
                ne, npts, o2n = transform(elems, pts, rng, reflect=False, big=(v == 1))
                ok, why = c07_case(elems, pts, ne, npts, o2n, False)
                G["rigid-motion-and-atom-reordering"].case(ok, f"{cname}: {why}; elements {elems}", c07_body(elems, pts, ne, npts, o2n, False), sample={"class": cname, "elements": elems})
                ne, npts, o2n = transform(elems, pts, rng, reflect=True)
                ok, why = c07_case(elems, pts, ne, npts, o2n, True)
                G["reflection-gives-the-enantiomer"].case(ok, f"{cname}: {why}; elements {elems}", c07_body(elems, pts, ne, npts, o2n, True))
            # centre moved away from index 0 by a pure reordering
            n = len(elems)
            perm = list(range(1, n)) + [0]
            ne, npts, o2n = [elems[p] for p in perm], pts[perm], {old: new for new, old in enumerate(perm)}
            ok, why = c07_case(elems, pts, ne, npts, o2n, False)
            G["centre-not-first-atom"].case(ok, f"{cname}: {why}; elements {elems}", c07_body(elems, pts, ne, npts, o2n, False))
        for g in G.values():
            g.close()
    # a DISTORTED five-coordinate centre with two wide angles (172 and 158 degrees, no tie, nowhere near a threshold of the
    # property): whichever pair the perception takes as the axis, it must be the same pair under every atom order
    Gd = {n: Group(rep, f"C07/bounded/distorted-trigonal-bipyramid/{n}") for n in ("rigid-motion-and-atom-reordering", "reflection-gives-the-enantiomer")}
    R = radii()
    ligs = [9, 17, 35, 8, 7]
    dirs = [np.array([0, 0, 1.0]), np.array([math.sin(math.radians(8)), 0, -math.cos(math.radians(8))]),
            np.array([1.0, 0, 0]), np.array([math.cos(math.radians(158)), math.sin(math.radians(158)), 0]), np.array([math.cos(math.radians(-101)), math.sin(math.radians(-101)), 0])]
    for rep_i in range(3 if tier == "quick" else 12):
        order = list(range(5))
        rng.shuffle(order)
        elems = [15] + [ligs[i] for i in order]
        pts = np.array([np.zeros(3)] + [dirs[j] * 0.98 * (R[15] + R[ligs[i]]) for j, i in enumerate(order)])
        distinct += 1
        for v in range(2 * n_tr):
            ne, npts, o2n = transform(elems, pts, rng, reflect=False)
            ok, why = c07_case(elems, pts, ne, npts, o2n, False)
            Gd["rigid-motion-and-atom-reordering"].case(ok, f"distorted TBP: {why}; elements {elems}", c07_body(elems, pts, ne, npts, o2n, False), sample={"elements": elems})
            ne, npts, o2n = transform(elems, pts, rng, reflect=True)
            ok, why = c07_case(elems, pts, ne, npts, o2n, True)
            Gd["reflection-gives-the-enantiomer"].case(ok, f"distorted TBP: {why}; elements {elems}", c07_body(elems, pts, ne, npts, o2n, True))
    for g in Gd.values():
        g.close()
    gc = Group(rep, "C07/bounded/caller-tuned-cutoff-for-one-element-pair/atom-reordering")
    for perm in itertools.permutations(range(5)):
        ok, why = c07_cutoff_case(perm)
        gc.case(ok, why, f"from vf.e3.geom import c07_cutoff_case\nok, why = c07_cutoff_case({perm!r})\nprint(why)\n", sample={"order": list(perm)})
    gc.close()
    G = {n: Group(rep, f"C07/bounded/double-bond-template/{n}") for n in ("rigid-motion-and-atom-reordering", "reflection-keeps-planar-descriptor", "all-atom-orders")}
    for _ in range(6 if tier == "quick" else 30):
        elems, pts = ethene_like(rng)
        distinct += 1
        for v in range(n_tr):
            ne, npts, o2n = transform(elems, pts, rng)
            ok, why = c07_case(elems, pts, ne, npts, o2n, False)
            G["rigid-motion-and-atom-reordering"].case(ok, f"{why}; elements {elems}", c07_body(elems, pts, ne, npts, o2n, False), sample={"elements": elems})
            ne, npts, o2n = transform(elems, pts, rng, reflect=True)
            ok, why = c07_case(elems, pts, ne, npts, o2n, True)
            G["reflection-keeps-planar-descriptor"].case(ok, f"{why}; elements {elems}", c07_body(elems, pts, ne, npts, o2n, True))
    # a twisted double bond under EVERY atom order: the planarity decision may not depend on the order of the points
    elems, pts = ethene_like(random.Random(5), noise=0.0)
    tw = math.radians(85)
    Rx = np.array([[1, 0, 0], [0, math.cos(tw), -math.sin(tw)], [0, math.sin(tw), math.cos(tw)]])
    pts2 = pts.copy()
    for i in (4, 5):
        pts2[i] = pts[3] + Rx @ (pts[i] - pts[3])
    perms = list(itertools.permutations(range(6)))
    for perm in (perms if tier != "quick" else perms[::12]):
        ne, npts, o2n = [elems[p] for p in perm], pts2[list(perm)], {old: new for new, old in enumerate(perm)}
        ok, why = c07_case(elems, pts2, ne, npts, o2n, False)
        G["all-atom-orders"].case(ok, f"twisted double bond, order {perm}: {why}", c07_body(elems, pts2, ne, npts, o2n, False))
    for g in G.values():
        g.close()
    # the planarity decision itself must not depend on the order of the points
    grp = Group(rep, "C07/bounded/are_planar/decision-independent-of-point-order")
    from stereomolgraph.coords import are_planar

    base_sets = []
    for _ in range(30 if tier == "quick" else 300):
        k = rng.choice((4, 4, 5, 6))
        P = np.array([[rng.uniform(-1.6, 1.6) for _ in range(3)] for _ in range(k)])
        base_sets.append(P)
    base_sets.append(np.array([[0, 0, 0], [3.0, 0, 0], [0, 3.0, 0], [0.3, 0.3, 1.05]]))  # a flat pyramid: apex 1.05 from the base, base points ~0.9 from the side faces
    for P in base_sets:
        distinct += 1
        vals = set()
        for perm in itertools.permutations(range(len(P))) if len(P) <= 5 else [tuple(rng.sample(range(len(P)), len(P))) for _ in range(60)]:
            vals.add(bool(are_planar(P[list(perm)])))
            if len(vals) > 1:
                break
        body = (f"import numpy as np, itertools\nfrom stereomolgraph.coords import are_planar\nP = np.array({P.tolist()!r})\n"
                f"vals = {{bool(are_planar(P[list(p)])) for p in itertools.permutations(range(len(P)))}}\nprint(vals)\nok = len(vals) == 1\n")
        grp.case(len(vals) == 1, f"are_planar gives different answers for different orders of the same points {P.tolist()}", body, sample=P.tolist())
    grp.close()
    # repository geometries
    grp = Group(rep, "C07/bounded/repository-xyz-files/rigid-motion-reordering-reflection")
    data = os.path.join(REPO, "tests", "unit", "data")
    for path in sorted(glob.glob(os.path.join(data, "*.xyz"))):
        frames, err = safe(lambda: read_xyz_frames(path))
        if err or not frames:
            continue
        for geo in frames[:2]:
            elems, pts = list(geo.atom_types), np.array(geo.coords)
            distinct += 1
            for v in range(2 if tier == "quick" else 8):
                for refl in (False, True):
                    ne, npts, o2n = transform(elems, pts, rng, reflect=refl)
                    ok, why = c07_case(elems, pts, ne, npts, o2n, refl)
                    grp.case(ok, f"{os.path.basename(path)} (reflect={refl}): {why}", c07_body(elems, pts, ne, npts, o2n, refl), sample=os.path.basename(path))
    grp.close()
    # reaction triples moved independently
    grp = Group(rep, "C07/bounded/reactant-product-TS-moved-independently")
    from stereomolgraph import StereoCondensedReactionGraph

    for stem in ("methylamine_phosgenation_trans", "fluoro_chloro_bromomethane"):
        fs = [os.path.join(data, f"{stem}_{x}.xyz") for x in ("r", "p", "ts")]
        if not all(os.path.exists(f) for f in fs):
            continue
        geos = [read_xyz_frames(f)[0] for f in fs]
        base, e0 = safe(lambda: StereoCondensedReactionGraph.from_geometries(*geos))
        if e0:
            continue
        distinct += 1
        for v in range(3 if tier == "quick" else 12):
            moved = []
            for geo in geos:
                Rm, t = rot(rng), np.array([rng.uniform(-20, 20) for _ in range(3)])
                moved.append(geometry(geo.atom_types, np.array(geo.coords) @ Rm.T + t))
            got, e1 = safe(lambda: StereoCondensedReactionGraph.from_geometries(*moved))
            ok = not e1 and snapshot(got).canon() == snapshot(base).canon()
            grp.case(ok, f"{stem}: moving reactant/product/TS independently changes the reaction graph: {e1 or ''}", None, sample=stem)
    grp.close()
    rep.distinct_nontrivial = distinct


# ------------------------------------------------------------------------------------------------ C20
COMMENTS = ["", "plain comment", "  leading and trailing  ", "# hash", "C 1.0 2.0 3.0", "12", "tabs\tinside", "unicode µ Å ü", "a" * 300, "-1.0e+05", "'quotes' \"double\"", "\\back\\slash",
            # characters some text layers treat as line separators: only "\n" ends the comment line of an XYZ block
            "step 12\rE=-1.0", "frame 3\rH 0.0 0.0 0.0", "form\x0cfeed", "vt\x0btab", "fs\x1cgs\x1d", "nel\x85 ls\u2028 ps\u2029"]


def c20_roundtrip_case(elems, coords, comment):
    from stereomolgraph.coords import Geometry

    geo = geometry(elems, coords)
    txt = geo.xyz_str(comment)
    back, err = safe(lambda: Geometry.from_xyz(txt))
    if err:
        return False, f"reading the written text raised {err}"
    if list(back.atom_types) != list(geo.atom_types):
        return False, "element list differs"
    if back.coords.shape != geo.coords.shape or not np.allclose(back.coords, geo.coords, rtol=0, atol=1.0001e-8):
        return False, f"coordinates differ by up to {np.abs(back.coords - geo.coords).max() if back.coords.shape == geo.coords.shape else 'shape'}"
    return True, ""


def connectivity(elems, pts):
    from stereomolgraph import MolGraph

    g = MolGraph.from_geometry(geometry(elems, pts))
    return {frozenset(b) for b in g.bonds}, g


def c20_conn_case(elems, pts, new_elems=None, new_pts=None, old_to_new=None, margin=1e-6):
    R = radii()
    n = len(elems)
    bonds, g = connectivity(elems, pts)
    exp = set()
    for i in range(n):
        for j in range(i + 1, n):
            d = float(np.linalg.norm(np.asarray(pts[i], float) - np.asarray(pts[j], float)))
            thr = 1.2 * (R[elems[i]] + R[elems[j]])
            if abs(d - thr) < margin:
                return True, ""  # on the threshold: outside the property's domain
            if d < thr:
                exp.add(frozenset((i, j)))
    if any(len(b) != 2 for b in bonds):
        return False, "self-bond"
    if bonds != exp:
        return False, f"bonds differ from 'distance < 1.2 (r_i + r_j)': {sorted(map(sorted, bonds ^ exp))}"
    if set(g.atoms) != set(range(n)):
        return False, "atoms differ"
    if new_elems is not None:
        b2, _ = connectivity(new_elems, new_pts)
        if b2 != {frozenset(old_to_new[x] for x in b) for b in bonds}:
            return False, "connectivity changes under rigid motion / atom reordering"
    return True, ""


def run_c20(rep, tier, seed):
    rng = random.Random(seed + 20)
    distinct = 0
    G = {n: Group(rep, f"C20/bounded/xyz-text/{n}") for n in ("round-trip-by-size", "all-118-elements", "magnitudes-and-signs", "comment-lines")}
    for n in (1, 2, 3, 10, 200):
        for rep_i in range(2 if tier == "quick" else 6):
            elems = [rng.randint(1, 118) for _ in range(n)]
            coords = [[rng.uniform(-50, 50) for _ in range(3)] for _ in range(n)]
            ok, why = c20_roundtrip_case(elems, coords, "c")
            body = f"from vf.e3.geom import c20_roundtrip_case\nok, why = c20_roundtrip_case({elems[:10]!r}, {coords[:10]!r}, 'c')\nprint(why)\n" if n <= 10 else None
            G["round-trip-by-size"].case(ok, f"n={n}: {why}", body, sample={"n": n})
            distinct += 1
    for e in range(1, 119):
        ok, why = c20_roundtrip_case([e, (e % 118) + 1], [[0.1, -0.2, 0.3], [1.5, 2.5, -3.5]], None)
        G["all-118-elements"].case(ok, f"element {e}: {why}", f"from vf.e3.geom import c20_roundtrip_case\nok, why = c20_roundtrip_case([{e}, {(e % 118) + 1}], [[0.1, -0.2, 0.3], [1.5, 2.5, -3.5]], None)\nprint(why)\n")
    for mag in (1e-9, 1e-8, 1e-5, 1e-3, 1, 12.345678901, 999.99999999, 1e3, 12345.678, 99999.9, 1e5, 123456.123456789, 654321.87654321, 999999.99999999, 1e6):
        for sgn in itertools.product((1, -1), repeat=3):
            coords = [[sgn[0] * mag, sgn[1] * mag * 0.5, sgn[2] * mag], [sgn[2] * mag, sgn[0] * mag, sgn[1] * mag], [0.0, -0.0, mag]]
            ok, why = c20_roundtrip_case([6, 1, 8], coords, "m")
            G["magnitudes-and-signs"].case(ok, f"magnitude {mag} signs {sgn}: {why}", f"from vf.e3.geom import c20_roundtrip_case\nok, why = c20_roundtrip_case([6, 1, 8], {coords!r}, 'm')\nprint(why)\n", sample={"magnitude": mag})
            distinct += 1
    for c in COMMENTS + [None]:
        ok, why = c20_roundtrip_case([6, 1], [[0, 0, 0], [1.09, 0, 0]], c)
        G["comment-lines"].case(ok, f"comment {c!r}: {why}", f"from vf.e3.geom import c20_roundtrip_case\nok, why = c20_roundtrip_case([6, 1], [[0, 0, 0], [1.09, 0, 0]], {c!r})\nprint(why)\n", sample=c)
    for g in G.values():
        g.close()
    G = {n: Group(rep, f"C20/bounded/distance-connectivity/{n}") for n in ("threshold-exact-symmetric-no-self-bonds", "rigid-motion-and-reordering", "far-from-the-origin", "near-threshold-pairs")}
    R = radii()
    for _ in range(20 if tier == "quick" else 200):
        n = rng.randint(1, 9)
        elems = [rng.choice([1, 6, 7, 8, 9, 15, 16, 17, 26, 35, 53, 78]) for _ in range(n)]
        pts = np.array([[rng.uniform(-2.5, 2.5) for _ in range(3)] for _ in range(n)])
        distinct += 1
        ok, why = c20_conn_case(elems, pts)
        body = f"import numpy as np\nfrom vf.e3.geom import c20_conn_case\nok, why = c20_conn_case({elems!r}, np.array({pts.tolist()!r}))\nprint(why)\n"
        G["threshold-exact-symmetric-no-self-bonds"].case(ok, f"{why}; elements {elems}", body, sample={"elements": elems})
        for big in (False, True):
            ne, npts, o2n = transform(elems, pts, rng, big=big)
            ok, why = c20_conn_case(elems, pts, ne, npts, o2n, margin=1e-5 if big else 1e-6)
            body = (f"import numpy as np\nfrom vf.e3.geom import c20_conn_case\nok, why = c20_conn_case({elems!r}, np.array({pts.tolist()!r}), {ne!r}, np.array({npts.tolist()!r}), {o2n!r})\nprint(why)\n")
            G["far-from-the-origin" if big else "rigid-motion-and-reordering"].case(ok, f"{why}; elements {elems}", body)
    # a chain whose consecutive distances sit 1e-5 inside / outside the threshold, near the origin and ~1e6 away
    for shift in ((0, 0, 0), (150.0, -150.0, 99.0), (9e5, -8e5, 7e5), (-9.99e5, 9.99e5, 9.98e5)):
        elems = [6, 6, 7, 8, 6, 1, 9, 6, 17, 6, 6, 8]
        pts = [np.zeros(3)]
        for i in range(1, len(elems)):
            thr = 1.2 * (R[elems[i - 1]] + R[elems[i]])
            d = thr - 1e-5 if i % 2 else thr + 1e-5
            direction = np.array([1.0, 0.3 * ((-1) ** i), 0.2 * (i % 3)])
            direction /= np.linalg.norm(direction)
            pts.append(pts[-1] + direction * d * 1.0)
        pts = np.array(pts)
        moved = pts @ rot(random.Random(3)).T + np.array(shift)
        o2n = {i: i for i in range(len(elems))}
        b0, _ = connectivity(elems, pts)
        b1, _ = connectivity(elems, moved)
        body = (f"import numpy as np\nfrom vf.e3.geom import connectivity\nb0, _ = connectivity({elems!r}, np.array({pts.tolist()!r}))\nb1, _ = connectivity({elems!r}, np.array({moved.tolist()!r}))\nprint(sorted(map(sorted, b0 ^ b1)))\nok = b0 == b1\n")
        G["near-threshold-pairs"].case(b0 == b1, f"connectivity changes under a rigid motion with translation {shift}: {sorted(map(sorted, b0 ^ b1))}", body, sample={"shift": shift})
    for g in G.values():
        g.close()
    rep.distinct_nontrivial = distinct
