"""E1 obligations on the methods of the four graph classes (shared by C09, C19, ...)."""
from __future__ import annotations

from ..contracts import graph_ops as G
from ..core import ERROR, Ob, src_info
from ..pyvc import verify

CLASSES = ("MolGraph", "StereoMolGraph", "CondensedReactionGraph", "StereoCondensedReactionGraph")


def ob_mutator(rep, world, cname, mname, pid, timeout):
    c = G.MUTATORS[mname]()
    verify.verify_mutator(rep.obs, world, cname, mname, c, {pid: True}, timeout=timeout)


def ob_query(rep, world, cname, qname, timeout):
    c = G.QUERIES[qname]()
    verify.verify_query(rep.obs, world, cname, qname, c, timeout=timeout)


def tasks(pid, timeout, queries=True):
    out = []
    for mname, c in G.MUTATORS.items():
        for cname in c.classes:
            out.append(("ob_mutator", (cname, mname, pid, timeout)))
    if queries:
        for qname, c in G.QUERIES.items():
            for cname in c.classes:
                out.append(("ob_query", (cname, qname, timeout)))
    return out


def functions_under_contract(world):
    seen, out = set(), []
    for table in (G.MUTATORS, G.QUERIES):
        for name, c in table.items():
            mname = c.__name__ if table is G.QUERIES else name
            for cname in c.classes:
                cls = world.cls(cname)
                dc, m = cls.find(mname)
                if dc is None:
                    continue
                key = (dc.module.relpath, f"{dc.name}.{mname}")
                if key not in seen:
                    seen.add(key)
                    out.append(src_info(*key))
    return out
