"""Reference transitions of the public editing operations (the property statements C09/C19 transcribed
onto the plain model) and their execution on the real classes.

An op is a tuple (name, *args).  apply_ref returns
  "ok"        the request can be honoured; ref has been updated
  "rejected"  the request is ill-formed in one of the ways LISTED in C19: must raise, must change nothing
  "skip"      outside the domain of the properties (e.g. a non-injective relabelling): nothing is demanded
  "error"     the request cannot be honoured for a reason the property does not list (e.g. deleting an
              attribute that is not there): if the real code raises, nothing may have changed; if it does
              not raise, the views must be unchanged as well
"""
from __future__ import annotations

from .refmodel import ATOM_CLASSES, BOND_CLASSES, CHANGES, Ref, descr_centre, descr_map, mk_descr

PT_OK = set(range(1, 119))
SYMS = {"H": 1, "C": 6, "N": 7, "O": 8, "F": 9, "Cl": 17, "Br": 35, "h": 1, "c": 6, "CL": 17, "cl": 17}


def elem(t):
    """PERIODIC_TABLE semantics (independent transcription): ints 1..118, symbols in three spellings"""
    if isinstance(t, bool):
        return 1 if t is True else None  # True == 1 hashes like 1
    if isinstance(t, int) and t in PT_OK:
        return t
    if isinstance(t, str) and t in SYMS:
        return SYMS[t]
    return None


def mentions(d, a):
    return a in d[1]


def dec(v):
    """ops are plain data: '@FORMED' stands for the enum member Change.FORMED"""
    if isinstance(v, str) and v.startswith("@"):
        from stereomolgraph.graphs.crg import Change

        return Change[v[1:]]
    return v


def dec_attrs(d):
    return {k: dec(v) for k, v in d.items()}


def apply_ref(r: Ref, op):
    n = op[0]
    A = r.atoms
    if n == "add_atom":
        _, a, t, attrs = op
        e = elem(t)
        if e is None:
            return "rejected"
        A[a] = {"atom_type": e, **attrs}
        return "ok"
    if n == "remove_atom":
        a = op[1]
        if a not in A:
            return "rejected"
        del A[a]
        r.bonds = {b: v for b, v in r.bonds.items() if a not in b}
        r.atom_stereo = {k: d for k, d in r.atom_stereo.items() if not mentions(d, a)}
        r.bond_stereo = {k: d for k, d in r.bond_stereo.items() if not mentions(d, a)}
        r.atom_changes = {k: {c: d for c, d in v.items() if not mentions(d, a)} for k, v in r.atom_changes.items() if k != a}
        r.bond_changes = {k: {c: d for c, d in v.items() if not mentions(d, a)} for k, v in r.bond_changes.items() if a not in k}
        # an entry without any descriptor left is no stereo change
        r.atom_changes = {k: v for k, v in r.atom_changes.items() if v}
        r.bond_changes = {k: v for k, v in r.bond_changes.items() if v}
        return "ok"
    if n == "set_atom_attribute":
        _, a, k, v = op
        if a not in A:
            return "rejected"
        if k == "atom_type":
            e = elem(v)
            if e is None:
                return "rejected"
            v = e
        A[a][k] = v
        return "ok"
    if n == "delete_atom_attribute":
        _, a, k = op
        if a not in A or k == "atom_type":
            return "rejected"
        if k not in A[a]:
            return "error"
        del A[a][k]
        return "ok"
    if n in ("add_bond", "add_formed_bond", "add_broken_bond", "add_fleeting_bond"):
        _, a, b, attrs = op
        attrs = dec_attrs(attrs)
        if a not in A or b not in A or a == b:
            return "rejected"
        if r.reaction_kind and "reaction" in attrs:
            if attrs["reaction"] not in CHANGES_ENUM():
                return "rejected"
            attrs["reaction"] = attrs["reaction"].value
        if n != "add_bond":
            attrs["reaction"] = n.split("_")[1]
        r.bonds[frozenset((a, b))] = attrs
        return "ok"
    if n == "remove_bond":
        _, a, b = op
        k = frozenset((a, b))
        if k not in r.bonds:
            return "rejected"
        del r.bonds[k]
        return "ok"
    if n == "set_bond_attribute":
        _, a, b, k, v = op
        v = dec(v)
        kb = frozenset((a, b))
        if kb not in r.bonds:
            return "rejected"
        if r.reaction_kind and k == "reaction":
            if v not in CHANGES_ENUM():
                return "rejected"
            v = v.value
        r.bonds[kb][k] = v
        return "ok"
    if n == "delete_bond_attribute":
        _, a, b, k = op
        kb = frozenset((a, b))
        if kb not in r.bonds:
            return "rejected"
        if k not in r.bonds[kb]:
            return "error"
        del r.bonds[kb][k]
        return "ok"
    if n == "set_atom_stereo":
        d = op[1]
        if d[1][0] not in A:
            return "rejected"
        r.atom_stereo[d[1][0]] = d
        return "ok"
    if n == "delete_atom_stereo":
        a = op[1]
        if a not in r.atom_stereo:
            return "rejected" if a not in A else "error"
        del r.atom_stereo[a]
        return "ok"
    if n == "set_bond_stereo":
        d = op[1]
        kb = frozenset(d[1][2:4])
        if len(kb) != 2 or kb not in r.bonds:
            return "rejected"
        r.bond_stereo[kb] = d
        return "ok"
    if n == "delete_bond_stereo":
        kb = frozenset(op[1])
        if kb not in r.bond_stereo:
            return "rejected" if kb not in r.bonds else "error"
        del r.bond_stereo[kb]
        return "ok"
    if n == "set_atom_stereo_change":
        ch = {c: d for c, d in op[1].items() if d is not None}
        centres = {d[1][0] for d in ch.values()}
        if len(centres) != 1 or next(iter(centres)) not in A:
            return "rejected"
        r.atom_changes[next(iter(centres))] = ch
        return "ok"
    if n == "set_bond_stereo_change":
        ch = {c: d for c, d in op[1].items() if d is not None}
        centres = {frozenset(d[1][2:4]) for d in ch.values()}
        if len(centres) != 1 or next(iter(centres)) not in r.bonds or len(next(iter(centres))) != 2:
            return "rejected"
        r.bond_changes[next(iter(centres))] = ch
        return "ok"
    if n == "delete_atom_stereo_change":
        _, a, c = op
        if not r.atom_changes.get(a):
            return "rejected" if a not in A else "error"
        if c is None:
            del r.atom_changes[a]
            return "ok"
        if c not in r.atom_changes[a]:
            return "error"
        del r.atom_changes[a][c]
        if not r.atom_changes[a]:
            del r.atom_changes[a]  # an entry without any descriptor is no stereo change
        return "ok"
    if n == "delete_bond_stereo_change":
        _, b, c = op
        kb = frozenset(b)
        if not r.bond_changes.get(kb):
            return "rejected" if kb not in r.bonds else "error"
        if c is None:
            del r.bond_changes[kb]
            return "ok"
        if c not in r.bond_changes[kb]:
            return "error"
        del r.bond_changes[kb][c]
        if not r.bond_changes[kb]:
            del r.bond_changes[kb]
        return "ok"
    if n == "relabel_inplace":
        m = op[1]
        f = lambda x: m.get(x, x)  # noqa
        if len({f(a) for a in A}) != len(A):
            return "skip"  # not injective: outside the domain of C09/C11/C19
        new = r.relabel(f)
        r.atoms, r.bonds, r.atom_stereo, r.bond_stereo = new.atoms, new.bonds, new.atom_stereo, new.bond_stereo
        r.atom_changes, r.bond_changes = new.atom_changes, new.bond_changes
        return "ok"
    raise ValueError(n)


def CHANGES_ENUM():
    from stereomolgraph.graphs.crg import Change

    return tuple(Change)


def apply_real(g, op):
    """Executes op on the real graph through the public API; returns (result, exception or None)."""
    from stereomolgraph.graphs.crg import Change

    n = op[0]
    try:
        if n == "add_atom":
            return g.add_atom(op[1], op[2], **op[3]), None
        if n in ("add_bond", "add_formed_bond", "add_broken_bond", "add_fleeting_bond"):
            return getattr(g, n)(op[1], op[2], **dec_attrs(op[3])), None
        if n == "set_bond_attribute":
            return g.set_bond_attribute(op[1], op[2], op[3], dec(op[4])), None
        if n in ("set_atom_stereo", "set_bond_stereo"):
            return getattr(g, n)(mk_descr(op[1])), None
        if n in ("set_atom_stereo_change", "set_bond_stereo_change"):
            return getattr(g, n)(**{c: (mk_descr(d) if d is not None else None) for c, d in op[1].items()}), None
        if n in ("delete_atom_stereo_change", "delete_bond_stereo_change"):
            c = None if op[2] is None else Change(op[2])
            return getattr(g, n)(op[1], c), None
        if n == "relabel_inplace":
            res = g.relabel_atoms(dict(op[1]), copy=False)
            if res is not g:
                raise AssertionError("relabel_atoms(copy=False) did not return the graph itself")
            return res, None
        return getattr(g, n)(*op[1:]), None
    except Exception as e:  # noqa
        return None, e


def op_applicable(kind, op):
    n = op[0]
    if n in ("add_formed_bond", "add_broken_bond", "add_fleeting_bond"):
        return kind in ("CRG", "SCRG")
    if n in ("set_atom_stereo", "delete_atom_stereo", "set_bond_stereo", "delete_bond_stereo"):
        return kind in ("SMG", "SCRG")
    if "stereo_change" in n:
        return kind == "SCRG"
    return True


def op_code(op):
    return repr(op)


# ------------------------------------------------------------------------------------------ read-only queries
def queries(kind, universe):
    """(name, callable(g)) - each must leave raw_state untouched whether it raises or answers"""
    qs = []
    for a in universe:
        qs.append((f"has_atom({a})", lambda g, a=a: g.has_atom(a)))
        qs.append((f"get_atom_attribute({a},'x')", lambda g, a=a: g.get_atom_attribute(a, "x")))
        qs.append((f"get_atom_type({a})", lambda g, a=a: g.get_atom_type(a)))
        qs.append((f"get_atom_attributes({a})", lambda g, a=a: g.get_atom_attributes(a)))
        qs.append((f"get_atom_attributes({a},['atom_type'])", lambda g, a=a: g.get_atom_attributes(a, ["atom_type"])))
        qs.append((f"bonded_to({a})", lambda g, a=a: g.bonded_to(a)))
        qs.append((f"neighbors[{a}]", lambda g, a=a: g.neighbors[a]))
        qs.append((f"atoms_with_attributes[{a}]", lambda g, a=a: g.atoms_with_attributes[a]))
        qs.append((f"node_connected_component({a})", lambda g, a=a: g.node_connected_component(a)))
        if kind in ("SMG", "SCRG"):
            qs.append((f"get_atom_stereo({a})", lambda g, a=a: g.get_atom_stereo(a)))
            qs.append((f"atom_stereo[{a}]", lambda g, a=a: g.atom_stereo[a]))
        if kind == "SCRG":
            qs.append((f"get_atom_stereo_change({a})", lambda g, a=a: g.get_atom_stereo_change(a)))
            qs.append((f"atom_stereo_changes[{a}]", lambda g, a=a: g.atom_stereo_changes[a]))
    for i, a in enumerate(universe):
        for b in universe[i:]:
            qs.append((f"has_bond({a},{b})", lambda g, a=a, b=b: g.has_bond(a, b)))
            qs.append((f"get_bond_attribute({a},{b},'x')", lambda g, a=a, b=b: g.get_bond_attribute(a, b, "x")))
            qs.append((f"get_bond_attributes({a},{b})", lambda g, a=a, b=b: g.get_bond_attributes(a, b)))
            qs.append((f"bonds_with_attributes[{{{a},{b}}}]", lambda g, a=a, b=b: g.bonds_with_attributes[frozenset((a, b))]))
            if kind in ("SMG", "SCRG"):
                qs.append((f"get_bond_stereo(({a},{b}))", lambda g, a=a, b=b: g.get_bond_stereo((a, b))))
            if kind == "SCRG":
                qs.append((f"get_bond_stereo_change(({a},{b}))", lambda g, a=a, b=b: g.get_bond_stereo_change((a, b))))
                qs.append((f"bond_stereo_changes[{{{a},{b}}}]", lambda g, a=a, b=b: g.bond_stereo_changes[frozenset((a, b))]))
    qs += [
        ("g == g", lambda g: g == g),
        ("hash(g)", lambda g: hash(g)),
        ("str(g)", lambda g: str(g)),
        ("len/atoms/bonds/atom_types", lambda g: (len(g), list(g.atoms), list(g.bonds), g.atom_types, g.n_atoms)),
        ("connectivity_matrix()", lambda g: g.connectivity_matrix()),
        ("connected_components()", lambda g: g.connected_components()),
        ("_to_rdmol()", lambda g: g._to_rdmol()),
    ]
    if kind in ("SMG", "SCRG"):
        qs += [("stereo", lambda g: dict(g.stereo)), ("is_stereo_valid()", lambda g: g.is_stereo_valid())]
    if kind in ("CRG", "SCRG"):
        qs += [("get_formed/broken/fleeting_bonds", lambda g: (g.get_formed_bonds(), g.get_broken_bonds(), g.get_fleeting_bonds())),
               ("active_atoms()", lambda g: g.active_atoms()), ("active_atoms(1)", lambda g: g.active_atoms(1))]
    else:
        qs += [("to_rdmol(generate_bond_orders=False)", lambda g: g.to_rdmol(generate_bond_orders=False))]
    return qs


# ------------------------------------------------------------------------------------------ op instances
def op_instances(kind, universe, rng=None, ref=None):
    """A finite menu of well- and ill-formed requests over the universe of identifiers."""
    from stereomolgraph.graphs.crg import Change

    U = list(universe)
    ops = []
    for a in U:
        ops.append(("add_atom", a, 6, {}))
        ops.append(("add_atom", a, "N", {"x": 1}))
        ops.append(("add_atom", a, "Xx", {}))  # not an element
        ops.append(("add_atom", a, 0, {}))  # not an element
        ops.append(("remove_atom", a))
        ops.append(("set_atom_attribute", a, "x", 5))
        ops.append(("set_atom_attribute", a, "atom_type", "O"))
        ops.append(("set_atom_attribute", a, "atom_type", "nope"))
        ops.append(("delete_atom_attribute", a, "x"))
        ops.append(("delete_atom_attribute", a, "atom_type"))
    for a in U:
        for b in U:
            if a <= b:
                ops.append(("add_bond", a, b, {}))
                ops.append(("add_bond", b, a, {"w": 2}))
                ops.append(("remove_bond", a, b))
                ops.append(("set_bond_attribute", a, b, "w", 3))
                ops.append(("delete_bond_attribute", a, b, "w"))
                if kind in ("CRG", "SCRG"):
                    ops.append(("add_bond", a, b, {"reaction": "@FORMED"}))
                    ops.append(("add_bond", a, b, {"reaction": "formed"}))  # wrong type
                    if (a + b) % 2 == 0:
                        ops.append(("add_bond", a, b, {"reaction": None}))  # wrong type, falsy
                        ops.append(("add_bond", a, b, {"reaction": 0}))  # wrong type, falsy
                    ops.append(("add_formed_bond", a, b, {}))
                    ops.append(("add_broken_bond", b, a, {"w": 1}))
                    ops.append(("add_fleeting_bond", a, b, {}))
                    ops.append(("set_bond_attribute", a, b, "reaction", "@BROKEN"))
                    ops.append(("set_bond_attribute", a, b, "reaction", "broken"))  # wrong type
                    ops.append(("delete_bond_attribute", a, b, "reaction"))
    if kind in ("SMG", "SCRG"):
        import itertools

        for a in U:
            others = [x for x in U if x != a]
            for lig in itertools.permutations(others + [None], 4) if len(others) >= 3 else []:
                if lig.count(None) <= 1 and (rng is None or rng.random() < 0.15):
                    ops.append(("set_atom_stereo", ("Tetrahedral", (a, *lig), rng.choice((1, -1, None)) if rng else 1)))
            ops.append(("delete_atom_stereo", a))
        for a in U:
            for b in U:
                if a < b:
                    rest = [x for x in U if x not in (a, b)]
                    if len(rest) >= 2:
                        ops.append(("set_bond_stereo", ("PlanarBond", (rest[0], None, a, b, rest[1], None), 0)))
                        ops.append(("set_bond_stereo", ("AtropBond", (rest[0], None, b, a, None, rest[1]), 1)))
                    ops.append(("delete_bond_stereo", (a, b)))
    if kind == "SCRG":
        for a in U:
            others = [x for x in U if x != a]
            if len(others) >= 3:
                d1 = ("Tetrahedral", (a, others[0], others[1], others[2], None), 1)
                d2 = ("Tetrahedral", (a, others[1], others[0], others[2], None), 1)
                ops.append(("set_atom_stereo_change", {"broken": d1, "formed": d2}))
                ops.append(("set_atom_stereo_change", {"fleeting": d1}))
                b = others[0]
                d3 = ("Tetrahedral", (b, a, others[1], others[2], None), -1)
                ops.append(("set_atom_stereo_change", {"broken": d1, "formed": d3}))  # two centres
            ops.append(("set_atom_stereo_change", {}))  # nothing given
            ops.append(("delete_atom_stereo_change", a, None))
            ops.append(("delete_atom_stereo_change", a, "formed"))
            ops.append(("delete_atom_stereo_change", a, "broken"))
            ops.append(("delete_atom_stereo_change", a, "fleeting"))
        for a in U:
            for b in U:
                if a < b:
                    rest = [x for x in U if x not in (a, b)]
                    if len(rest) >= 2:
                        d1 = ("PlanarBond", (rest[0], None, a, b, rest[1], None), 0)
                        d2 = ("PlanarBond", (rest[0], None, a, b, None, rest[1]), 0)
                        ops.append(("set_bond_stereo_change", {"broken": d1, "formed": d2}))
                        ops.append(("set_bond_stereo_change", {"fleeting": d2}))
                    ops.append(("delete_bond_stereo_change", (a, b), None))
                    ops.append(("delete_bond_stereo_change", (a, b), "broken"))
                    ops.append(("delete_bond_stereo_change", (a, b), "formed"))
                    ops.append(("delete_bond_stereo_change", (a, b), "fleeting"))
    # in-place relabelling: a swap, a shift of one atom to a fresh id, a partial map
    if len(U) >= 2:
        ops.append(("relabel_inplace", {U[0]: U[1], U[1]: U[0]}))
        ops.append(("relabel_inplace", {U[0]: U[-1] + 10}))
        ops.append(("relabel_inplace", {U[-1] + 10: U[0]}))
    return [o for o in ops if op_applicable(kind, o)]
