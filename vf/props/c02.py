"""C02 - see DESIGN.md section 4.  Bounded relational contract (E3) + proved helper obligations (E1)."""
import time

from ..core import Report
from ..e3 import eqhash


def run(tier, seed):
    t0 = time.time()
    rep = Report("C02", tier, seed)
    rep.level = "exploration"
    eqhash.run_c02(rep, tier, seed)
    rep.rule = "E3 scope of DESIGN Appendix B: structured skeletons x element assignments x roles x stereo decorations x variants; distinct_nontrivial counts distinct base graphs"
    rep.assumptions = ["bounded: only the enumerated scope is covered; oracle = brute-force bijection search with oracle symmetry groups"]
    return rep, t0
