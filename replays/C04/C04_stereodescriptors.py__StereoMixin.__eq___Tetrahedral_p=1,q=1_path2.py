"""Replay of a failed obligation on the real code.  Run with /verif/.venv/bin/python.
Exits 1 when the violation reproduces on the tree under /repo, 0 otherwise.
obligation: C04/stereodescriptors.py:_StereoMixin.__eq__/Tetrahedral/p=1,q=1#path2
raises AttributeError: Tetrahedral((1, -1, None, 0, None),1) == Tetrahedral((0, None, None, None, 0),1); spec says False
"""
import sys
sys.path.insert(0, '/repo/src')
from stereomolgraph.stereodescriptors import Tetrahedral
a = Tetrahedral((1, -1, None, 0, None), 1); b = Tetrahedral((0, None, None, None, 0), 1)
expected = False   # spatial identity according to the oracle group of the idealised figure
try:
    got = (a == b)
except Exception as e:
    print('raised', type(e).__name__, e); sys.exit(1)
print(a, '==', b, '->', got, 'expected', expected)
sys.exit(0 if got is expected else 1)
