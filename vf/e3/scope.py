"""Finite scopes for the bounded stand-in E3 (DESIGN 2.4 / Appendix B).  Everything sampled uses the
caller's seed (VERIF_SEED); exhaustive families are enumerated completely."""
from __future__ import annotations

import itertools
import random

from ..spec.groups import CENTRES, CHIRAL, FIGS, PARITIES, groups
from ..spec.refmodel import ATOM_CLASSES, BOND_CLASSES, Ref

ELEMS = (6, 7, 1, 8, 17, 9, 35)
WEIRD_IDS = (0, -1, -7, 3, 11, 2**31 + 5, 2**40, 10**12, -(2**33), 5, 17, 42, 99, 1000)


def skeletons():
    """(name, n, edges)"""
    out = [
        ("empty", 0, []),
        ("atom", 1, []),
        ("two-isolated", 2, []),
        ("P2", 2, [(0, 1)]),
        ("P3", 3, [(0, 1), (1, 2)]),
        ("C3", 3, [(0, 1), (1, 2), (0, 2)]),
        ("P4", 4, [(0, 1), (1, 2), (2, 3)]),
        ("C4", 4, [(0, 1), (1, 2), (2, 3), (3, 0)]),
        ("K4", 4, [(i, j) for i in range(4) for j in range(i + 1, 4)]),
        ("star3", 4, [(0, 1), (0, 2), (0, 3)]),
        ("star4", 5, [(0, i) for i in range(1, 5)]),
        ("star5", 6, [(0, i) for i in range(1, 6)]),
        ("star6", 7, [(0, i) for i in range(1, 7)]),
        # centres with more ligands than any descriptor class has positions (IF7, MoH4(PH3)3 ...): no descriptor, mixed ligands
        ("star7", 8, [(0, i) for i in range(1, 8)]),
        ("ethene", 6, [(0, 1), (0, 2), (0, 3), (1, 4), (1, 5)]),
        ("imine", 5, [(0, 1), (0, 2), (0, 3), (1, 4)]),
        ("P3+atom", 4, [(0, 1), (1, 2)]),
        ("P2+P2", 4, [(0, 1), (2, 3)]),
        ("C3+P2", 5, [(0, 1), (1, 2), (0, 2), (3, 4)]),
        ("C5", 5, [(i, (i + 1) % 5) for i in range(5)]),
        ("C6", 6, [(i, (i + 1) % 6) for i in range(6)]),
        ("prism", 6, [(0, 1), (1, 2), (2, 0), (3, 4), (4, 5), (5, 3), (0, 3), (1, 4), (2, 5)]),
        ("K33", 6, [(i, j) for i in range(3) for j in range(3, 6)]),
        ("two-centres", 8, [(0, 1), (0, 2), (0, 3), (0, 4), (4, 5), (4, 6), (4, 7)]),
        ("butadiene-like", 8, [(0, 1), (1, 2), (2, 3), (0, 4), (0, 5), (1, 6), (2, 7)]),
        ("cube", 8, [(0, 1), (1, 2), (2, 3), (3, 0), (4, 5), (5, 6), (6, 7), (7, 4), (0, 4), (1, 5), (2, 6), (3, 7)]),
        ("bridgeH", 8, [(0, 6), (6, 1), (0, 7), (7, 1), (0, 2), (0, 3), (1, 4), (1, 5)]),
        # disconnected graphs whose components colour refinement cannot tell apart (the matcher must backtrack over components)
        ("C3+C3", 6, [(0, 1), (1, 2), (2, 0), (3, 4), (4, 5), (5, 3)]),
        ("P2+P2+P2", 6, [(0, 1), (2, 3), (4, 5)]),
        ("C3+C3+C6", 12, [(0, 1), (1, 2), (2, 0), (3, 4), (4, 5), (5, 3)] + [(6 + i, 6 + (i + 1) % 6) for i in range(6)]),
        ("P3+P3", 6, [(0, 1), (1, 2), (3, 4), (4, 5)]),
    ]
    return out


def mk(kind, n, edges, elems):
    r = Ref(kind)
    for i in range(n):
        r.atoms[i] = {"atom_type": elems[i]}
    for a, b in edges:
        r.bonds[frozenset((a, b))] = {}
    return r


def all_small(kind, nmax, elems=(6, 7)):
    """every labelled simple graph on <= nmax atoms over `elems` (n = 0 included)"""
    for n in range(nmax + 1):
        pairs = list(itertools.combinations(range(n), 2))
        for es in itertools.product(elems, repeat=n):
            for mask in range(1 << len(pairs)):
                edges = [p for i, p in enumerate(pairs) if mask >> i & 1]
                yield mk(kind, n, edges, es)


def assign_roles(r: Ref, rng, exhaustive=False):
    """reaction kinds: give bonds roles"""
    bonds = list(r.bonds)
    if exhaustive:
        for combo in itertools.product(("plain", "formed", "broken", "fleeting"), repeat=len(bonds)):
            g = r.copy()
            for b, c in zip(bonds, combo):
                if c != "plain":
                    g.bonds[b]["reaction"] = c
            yield g
    else:
        g = r.copy()
        for b in bonds:
            c = rng.choice(("plain", "plain", "formed", "broken", "fleeting"))
            if c != "plain":
                g.bonds[b]["reaction"] = c
        yield g


def stereo_sites(r: Ref):
    """possible (class, atoms-in-canonical-neighbour-order) decorations that are stereo-valid"""
    sites = []
    for a in r.atoms:
        nb = sorted(r.nbr(a))
        if len(nb) == 4:
            sites.append(("Tetrahedral", (a, *nb)))
            sites.append(("SquarePlanar", (a, *nb)))
        elif len(nb) == 3:
            sites.append(("Tetrahedral", (a, *nb, None)))
        elif len(nb) == 5:
            sites.append(("TrigonalBipyramidal", (a, *nb)))
        elif len(nb) == 6:
            sites.append(("Octahedral", (a, *nb)))
    for b in r.bonds:
        x, y = sorted(b)
        nx = sorted(r.nbr(x) - {y})
        ny = sorted(r.nbr(y) - {x})
        if len(nx) in (1, 2) and len(ny) in (1, 2) and not (set(nx) & set(ny)):  # atoms of a descriptor are pairwise distinct
            nx = nx + [None] * (2 - len(nx))
            ny = ny + [None] * (2 - len(ny))
            sites.append(("PlanarBond", (nx[0], nx[1], x, y, ny[0], ny[1])))
            sites.append(("AtropBond", (nx[0], nx[1], x, y, ny[0], ny[1])))
    return sites


def permute_ligands(cname, atoms, rng):
    idx = [i for i in range(len(atoms)) if i not in CENTRES[cname]]
    if cname in BOND_CLASSES:
        # keep substituents on their own end
        l, rr = [0, 1], [4, 5]
        rng.shuffle(l)
        rng.shuffle(rr)
        order = [l[0], l[1], 2, 3, rr[0], rr[1]]
        if rng.random() < 0.5:
            order = [order[4], order[5], 3, 2, order[0], order[1]]
        return tuple(atoms[i] for i in order)
    p = idx[:]
    rng.shuffle(p)
    out = list(atoms)
    for i, j in zip(idx, p):
        out[i] = atoms[j]
    return tuple(out)


def decorate(r: Ref, rng, p_site=0.7, allow_none_parity=True, max_sites=3):
    """random stereo-valid decoration (in place); returns r"""
    if not r.stereo_kind:
        return r
    sites = stereo_sites(r)
    rng.shuffle(sites)
    used_atoms, used_bonds, n = set(), set(), 0
    for cname, atoms in sites:
        if n >= max_sites or rng.random() > p_site:
            continue
        key = atoms[0] if cname in ATOM_CLASSES else frozenset(atoms[2:4])
        if key in used_atoms or key in used_bonds:
            continue
        pars = [p for p in PARITIES[cname] if p is not None or allow_none_parity]
        par = rng.choice(pars)
        d = (cname, permute_ligands(cname, atoms, rng), par)
        if cname in ATOM_CLASSES:
            used_atoms.add(key)
            if r.kind == "SCRG" and rng.random() < 0.4:
                ch = {}
                for c in rng.sample(("broken", "fleeting", "formed"), rng.randint(1, 3)):
                    ch[c] = (cname, permute_ligands(cname, atoms, rng), rng.choice(pars))
                r.atom_changes[key] = ch
            else:
                r.atom_stereo[key] = d
        else:
            used_bonds.add(key)
            role = r.role(key)
            allowed = [c for c in ("broken", "fleeting", "formed")
                       if c == "fleeting" or role == "plain" or (c == "broken" and role == "broken") or (c == "formed" and role == "formed")]
            if r.kind == "SCRG" and rng.random() < 0.4:
                ch = {}
                for c in rng.sample(allowed, rng.randint(1, len(allowed))):
                    ch[c] = (cname, permute_ligands(cname, atoms, rng), rng.choice(pars))
                r.bond_changes[key] = ch
            elif role != "plain":
                continue  # static bond stereo only on bonds present in reactant, product and TS
            else:
                r.bond_stereo[key] = d
        n += 1
    return r


def rewrite_descr(d, rng):
    """another spelling of the same arrangement, from the ORACLE group"""
    cname, atoms, par = d
    Gp, Gm = groups(cname)
    if par is None:
        idx = list(range(len(atoms)))
        rng.shuffle(idx)
        return (cname, tuple(atoms[i] for i in idx), None) if cname not in () else d
    if par in (1, -1) and rng.random() < 0.5:
        g = rng.choice(sorted(Gm))
        return (cname, tuple(atoms[g[i]] for i in range(len(atoms))), -par)
    g = rng.choice(sorted(Gp))
    return (cname, tuple(atoms[g[i]] for i in range(len(atoms))), par)


def respell(r: Ref, rng):
    """same graph, every descriptor rewritten by an oracle symmetry (centres stay in place for None parity)"""
    g = r.copy()

    def rw(d):
        cname, atoms, par = d
        if par is None:
            # keep centre positions, permute the ligands arbitrarily
            return (cname, permute_ligands_free(cname, atoms, rng), None)
        return rewrite_descr(d, rng)

    g.atom_stereo = {a: rw(d) for a, d in r.atom_stereo.items()}
    g.bond_stereo = {b: rw(d) for b, d in r.bond_stereo.items()}
    g.atom_changes = {a: {c: rw(d) for c, d in v.items()} for a, v in r.atom_changes.items()}
    g.bond_changes = {b: {c: rw(d) for c, d in v.items()} for b, v in r.bond_changes.items()}
    return g


def permute_ligands_free(cname, atoms, rng):
    idx = [i for i in range(len(atoms)) if i not in CENTRES[cname]]
    p = idx[:]
    rng.shuffle(p)
    out = list(atoms)
    for i, j in zip(idx, p):
        out[i] = atoms[j]
    if cname in BOND_CLASSES and rng.random() < 0.5:
        out = [out[4], out[5], out[3], out[2], out[0], out[1]]
    return tuple(out)


def random_renaming(r: Ref, rng, weird=True):
    atoms = list(r.atoms)
    if weird and len(atoms) <= len(WEIRD_IDS):
        new = rng.sample(WEIRD_IDS, len(atoms))
    else:
        new = rng.sample(range(-50, 200), len(atoms))
    return dict(zip(atoms, new))


def corpus(kind, seed, n_random=60, small_n=3, elems=ELEMS):
    """list[(name, Ref)] : structured skeletons x element assignments x roles x stereo decorations"""
    rng = random.Random(seed)
    out = []
    for name, n, edges in skeletons():
        for rep in range(3):
            es = [rng.choice(elems[:3]) for _ in range(n)] if rep else [elems[i % 5] if rep == 0 and i else 6 for i in range(n)]
            if rep == 2:
                es = [6] * n
            r = mk(kind, n, edges, es)
            if r.reaction_kind and r.bonds and rep != 2:
                r = next(assign_roles(r, rng))
            decorate(r, rng, allow_none_parity=(rep == 1))
            out.append((f"{name}/{rep}", r))
    return out


def wl_equivalent_pairs():
    """non-isomorphic skeleton pairs that 1-WL colour refinement cannot separate: (name, n, edges1, edges2)"""
    c6 = [(i, (i + 1) % 6) for i in range(6)]
    two_c3 = [(0, 1), (1, 2), (2, 0), (3, 4), (4, 5), (5, 3)]
    bicyclopropyl = two_c3 + [(0, 3)]
    bicyclo220 = [(0, 1), (1, 2), (2, 3), (3, 0), (0, 4), (4, 5), (5, 1)]  # bicyclo[2.2.0]hexane: two fused 4-rings
    prism = [(0, 1), (1, 2), (2, 0), (3, 4), (4, 5), (5, 3), (0, 3), (1, 4), (2, 5)]
    k33 = [(i, j) for i in range(3) for j in range(3, 6)]
    c8 = [(i, (i + 1) % 8) for i in range(8)]
    two_c4 = [(0, 1), (1, 2), (2, 3), (3, 0), (4, 5), (5, 6), (6, 7), (7, 4)]
    c3_c5 = [(0, 1), (1, 2), (2, 0), (3, 4), (4, 5), (5, 6), (6, 7), (7, 3)]
    return [("C6 vs 2xC3", 6, c6, two_c3), ("bicyclopropyl vs bicyclo[2.2.0]hexane", 6, bicyclopropyl, bicyclo220),
            ("prism vs K33", 6, prism, k33), ("C8 vs 2xC4", 8, c8, two_c4), ("2xC4 vs C3+C5", 8, two_c4, c3_c5)]


def ligand_pattern_family(kind, quick=True):
    """single centres / axes whose ligand ELEMENTS follow every pattern (AAAA, AAAB, AABB, AABC, ABCD, ...), every
    parity: decides chirality non-trivially (meso-like and achiral patterns as well as chiral ones)"""
    import itertools

    out = []
    specs = [("Tetrahedral", 4), ("SquarePlanar", 4), ("TrigonalBipyramidal", 5), ("Octahedral", 6)]
    for cname, k in specs:
        pats = set()
        for es in itertools.product((1, 9, 17, 35), repeat=k):
            # canonical pattern up to renaming of elements
            m = {}
            pats.add(tuple(m.setdefault(e, len(m)) for e in es))
        pats = sorted(pats)
        if quick and len(pats) > 40:
            pats = pats[:: max(1, len(pats) // 40)]
        for pat in pats:
            elems = [(1, 9, 17, 35, 8, 7)[i] for i in pat]
            r = mk(kind, k + 1, [(0, i) for i in range(1, k + 1)], [6] + elems)
            for par in PARITIES[cname]:
                if par is None:
                    continue
                g = r.copy()
                g.atom_stereo[0] = (cname, tuple(range(k + 1)), par)
                out.append((f"{cname}/{''.join('ABCDEF'[i] for i in pat)}/{par}", g))
    # lone-pair placeholders: one or two ligand positions are None (H-O-F, T-shaped ClF(Br)(I) ...): swapping two
    # placeholders is a symmetry, so such centres are achiral whatever the real ligands are
    for cname, k in specs:
        for m_none in (1, 2):
            if m_none > k - 2:
                continue
            arrangements = list(itertools.combinations(range(k), m_none))
            if quick:
                arrangements = arrangements[:: max(1, len(arrangements) // 3)]
            for none_pos in arrangements:
                real = [i for i in range(k) if i not in none_pos]
                for es in sorted({tuple({}.setdefault(e, e) for e in es) for es in itertools.product((1, 9, 17), repeat=len(real))})[:: (4 if quick else 1)]:
                    r = mk(kind, len(real) + 1, [(0, i) for i in range(1, len(real) + 1)], [8] + list(es))
                    atoms = [0] + [None] * k
                    for j, pos in enumerate(real):
                        atoms[1 + pos] = j + 1
                    for par in PARITIES[cname]:
                        if par is None:
                            continue
                        g = r.copy()
                        g.atom_stereo[0] = (cname, tuple(atoms), par)
                        out.append((f"{cname}/placeholders{none_pos}/{es}/{par}", g))
    for cname in ("PlanarBond", "AtropBond"):
        for es in itertools.product((1, 9), repeat=4):
            r = mk(kind, 6, [(0, 2), (1, 2), (2, 3), (3, 4), (3, 5)], [es[0], es[1], 6, 6, es[2], es[3]])
            for par in PARITIES[cname]:
                if par is None:
                    continue
                g = r.copy()
                g.bond_stereo[frozenset((2, 3))] = (cname, (0, 1, 2, 3, 4, 5), par)
                out.append((f"{cname}/{es}/{par}", g))
    return out
