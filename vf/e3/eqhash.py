"""Bounded relational contracts on __eq__ / __hash__ of the four graph classes (C01, C02, C03)."""
from __future__ import annotations

import itertools
import random

from ..spec.iso_spec import isomorphic
from ..spec.refmodel import Ref, build_real, real_class
from .harness import Group, ref_code, safe
from .scope import all_small, assign_roles, corpus, decorate, mk, random_renaming, respell, skeletons

KINDS = ("MG", "SMG", "CRG", "SCRG")


def eq_body(ra, rb, oa, ob, expect):
    return (f"a = build_real({ref_code(ra)}, {oa!r}); b = build_real({ref_code(rb)}, {ob!r})\n"
            f"try:\n    got = (a == b)\nexcept Exception as e:\n    got = 'raised %s: %s' % (type(e).__name__, e)\n"
            f"print('a == b ->', got, ' expected {expect!r}')\nok = got is {expect!r}\n")


def run_c01(rep, tier, seed):
    rng = random.Random(seed)
    n_var = 3 if tier == "quick" else 12
    total_graphs = set()
    for kind in KINDS:
        cls = real_class(kind)
        g_empty = Group(rep, f"C01/bounded/{kind}/empty-graph-equals-itself")
        r0 = Ref(kind)
        got, err = safe(lambda: (cls() == cls()))
        g_empty.case(got is True and not err, f"{kind}() == {kind}() -> {got} {err or ''}", eq_body(r0, r0, None, None, True), sample=f"{kind}() == {kind}()")
        g_empty.close()
        G = {n: Group(rep, f"C01/bounded/{kind}/{n}") for n in
             ("reflexive", "renamed", "reordered", "respelled", "renamed+reordered+respelled", "symmetric", "relabel_atoms-result-comparable")}
        items = corpus(kind, seed)
        if tier == "quick":
            items = items[:: 1]
        for name, ref in items:
            if not ref.atoms:
                continue
            total_graphs.add((kind, name))
            a = build_real(ref)
            got, err = safe(lambda: a == a)
            G["reflexive"].case(got is True, f"{name}: g == g -> {got} {err or ''}", eq_body(ref, ref, None, None, True), sample=ref.describe())
            for v in range(n_var):
                f = random_renaming(ref, rng, weird=(v % 2 == 0))
                r_ren = ref.relabel(f.get)
                r_sp = respell(ref, rng)
                r_all = respell(ref, rng).relabel(f.get)
                o = rng.randrange(10**6)
                for gname, rb, ob in (("renamed", r_ren, None), ("reordered", ref, o), ("respelled", r_sp, None),
                                      ("renamed+reordered+respelled", r_all, o)):
                    if not ref.stereo_kind and gname == "respelled":
                        continue
                    b, err0 = safe(lambda: build_real(rb, ob))
                    if err0:
                        G[gname].case(False, f"{name}: building variant failed: {err0}", None)
                        continue
                    got, err = safe(lambda: a == b)
                    G[gname].case(got is True, f"{name}: g == variant -> {got} {err or ''}; variant = {rb.describe()}",
                                  eq_body(ref, rb, None, ob, True))
                    got2, err2 = safe(lambda: b == a)
                    G["symmetric"].case(got2 is got and (err2 is None) == (err is None), f"{name}: a==b -> {got} but b==a -> {got2} {err2 or ''}",
                                        eq_body(rb, ref, ob, None, got if isinstance(got, bool) else True))
                # graphs produced by the API relabel_atoms must be comparable and equal
                def api():
                    fresh = build_real(ref)  # untouched by any earlier query
                    c = fresh.relabel_atoms(f, copy=True)
                    return (c == c) and (fresh == c) and (c == fresh)
                got, err = safe(api)
                G["relabel_atoms-result-comparable"].case(
                    got is True, f"{name}: a == a.relabel_atoms({f}) -> {got} {err or ''}",
                    f"a = build_real({ref_code(ref)})\ntry:\n    c = a.relabel_atoms({f!r}, copy=True); got = (c == c) and (a == c) and (c == a)\n"
                    f"except Exception as e:\n    got = 'raised %s: %s' % (type(e).__name__, e)\nprint(got)\nok = got is True\n")
        for g in G.values():
            g.close()
    rep.distinct_nontrivial = len(total_graphs)


def mutations(ref: Ref, rng):
    """single-feature mutations -> (what, Ref)"""
    out = []
    atoms = list(ref.atoms)
    if atoms:
        a = rng.choice(atoms)
        m = ref.copy()
        m.atoms[a]["atom_type"] = 9 if m.atoms[a]["atom_type"] != 9 else 8
        out.append(("one element", m))
    if ref.bonds:
        b = rng.choice(list(ref.bonds))
        if ref.reaction_kind:
            m = ref.copy()
            cur = m.bonds[b].get("reaction")
            new = rng.choice([c for c in (None, "formed", "broken", "fleeting") if c != cur])
            if new is None:
                m.bonds[b].pop("reaction")
            else:
                m.bonds[b]["reaction"] = new
            out.append(("one bond role", m))
        m = ref.copy()
        del m.bonds[b]
        if b not in m.bond_stereo and b not in m.bond_changes and not any(
                set(b) <= set(x for x in d[1] if x is not None) for d in m.atom_stereo.values()):
            out.append(("one bond removed", m))
    for a, d in ref.atom_stereo.items():
        if d[2] in (1, -1):
            m = ref.copy()
            m.atom_stereo[a] = (d[0], d[1], -d[2])
            out.append(("one parity inverted", m))
            break
    for b, d in ref.bond_stereo.items():
        if d[2] is not None:
            m = ref.copy()
            at = d[1]
            m.bond_stereo[b] = (d[0], (at[0], at[1], at[2], at[3], at[5], at[4]), d[2])
            out.append(("E/Z or atrop swap", m))
            break
    for b, d in ref.bond_stereo.items():
        if d[2] in (1, -1):
            m = ref.copy()
            m.bond_stereo[b] = (d[0], d[1], -d[2])
            out.append(("one axis parity inverted", m))
            break
    for a, v in ref.atom_changes.items():
        for c, d in v.items():
            if d[2] in (1, -1):
                m = ref.copy()
                m.atom_changes[a][c] = (d[0], d[1], -d[2])
                out.append(("one stereo-change parity inverted", m))
                break
        break
    for b, v in ref.bond_changes.items():
        for c, d in v.items():
            if d[2] in (1, -1):
                m = ref.copy()
                m.bond_changes[b][c] = (d[0], d[1], -d[2])
                out.append(("one bond-stereo-change parity inverted", m))
                break
        break
    return out


def run_c02(rep, tier, seed):
    rng = random.Random(seed + 2)
    distinct = 0
    # (1) exhaustive pairs of small graphs
    nmax = 3
    for kind in KINDS:
        grp = Group(rep, f"C02/bounded/{kind}/all-ordered-pairs-small-graphs(n<={nmax})")
        refs = []
        for r in all_small(kind, nmax):
            if r.reaction_kind and r.bonds:
                refs.extend(assign_roles(r, rng, exhaustive=(len(r.bonds) <= (2 if tier == "quick" else 3))))
            else:
                refs.append(r)
        if tier == "quick" and len(refs) > 220:
            keep = rng.sample(range(len(refs)), 220)
            refs = [refs[i] for i in sorted(keep)]
        reals = [build_real(r) for r in refs]
        distinct += len(refs)
        for i, j in itertools.product(range(len(refs)), repeat=2):
            if len(refs[i].atoms) != len(refs[j].atoms) or not refs[i].atoms:
                continue
            got, err = safe(lambda: reals[i] == reals[j])
            if got is True:
                iso = isomorphic(refs[i], refs[j])
                grp.case(iso, f"equal but no structure-preserving bijection: {refs[i].describe()} vs {refs[j].describe()}",
                         eq_body(refs[i], refs[j], None, None, False), sample=[refs[i].describe(), refs[j].describe()])
            else:
                grp.case(True)
        grp.close()
    # (2) single-feature mutations on the structured corpus
    for kind in KINDS:
        grp = {}
        from .scope import ligand_pattern_family

        for name, ref in corpus(kind, seed) + (ligand_pattern_family(kind, True) if kind in ("SMG", "SCRG") else []):
            if not ref.atoms or not ref.fully_specified():
                continue
            a = build_real(ref)
            for what, m in mutations(ref, rng):
                g = grp.setdefault(what, Group(rep, f"C02/bounded/{kind}/mutation:{what}"))
                b, errb = safe(lambda: build_real(m))
                if errb:
                    continue
                got, err = safe(lambda: a == b)
                if got is True:
                    g.case(isomorphic(ref, m), f"{name}: {what}: graphs compare equal but are not isomorphic: {ref.describe()} vs {m.describe()}",
                           eq_body(ref, m, None, None, False), sample=[ref.describe(), what])
                else:
                    g.case(True, sample=[name, what])
        for g in grp.values():
            g.close()
    # (3) known-hard family: reactions indistinguishable by 1-WL colours
    grp = Group(rep, "C02/bounded/CRG/prism-reactions-with-identical-colourings")
    prism = [s for s in skeletons() if s[0] == "prism"][0]
    base = mk("CRG", prism[1], prism[2], [6] * 6)
    r1, r2 = base.copy(), base.copy()
    for b in ((0, 1), (1, 2), (2, 0), (3, 4), (4, 5), (5, 3)):
        r1.bonds[frozenset(b)]["reaction"] = "formed"
    for b in ((0, 3), (1, 4), (2, 5)):
        r1.bonds[frozenset(b)]["reaction"] = "broken"
    for b in ((0, 1), (1, 4), (4, 5), (5, 3), (3, 0 + 0), (2, 0)):
        pass
    hexagon = [(0, 1), (1, 4), (4, 5), (5, 2), (2, 0), (0, 3)]
    # a hexagon formed, a perfect matching broken (on K_{3,3}-free prism edges)
    hexagon = [(0, 1), (1, 4), (4, 3), (3, 5), (5, 2), (2, 0)]
    matching = [(1, 2), (4, 5), (0, 3)]
    for b in hexagon:
        r2.bonds[frozenset(b)]["reaction"] = "formed"
    for b in matching:
        r2.bonds[frozenset(b)]["reaction"] = "broken"
    a, b = build_real(r1), build_real(r2)
    got, err = safe(lambda: a == b)
    grp.case(not (got is True and not isomorphic(r1, r2)), "two different reactions on the triangular prism compare equal (roles are only visible through 1-WL colours)",
             eq_body(r1, r2, None, None, False), sample="prism: two triangles formed/rungs broken vs hexagon formed/matching broken")
    grp.close()
    # (3b) non-isomorphic skeletons that colour refinement cannot tell apart, random identifiers and insertion orders
    from .scope import wl_equivalent_pairs
    for kind in KINDS:
        grp = Group(rep, f"C02/bounded/{kind}/1-WL-equivalent-non-isomorphic-skeletons")
        for name, n, e1, e2 in wl_equivalent_pairs():
            for v in range(12 if tier == "quick" else 80):
                ra, rb = mk(kind, n, e1, [6] * n), mk(kind, n, e2, [6] * n)
                if v:
                    ra = ra.relabel(random_renaming(ra, rng, weird=False).get)
                    rb = rb.relabel(random_renaming(rb, rng, weird=False).get)
                oa, ob = (None, None) if not v else (rng.randrange(10**6), rng.randrange(10**6))
                for x, y, ox, oy in ((ra, rb, oa, ob), (rb, ra, ob, oa)):
                    a, b = build_real(x, ox), build_real(y, oy)
                    got, err = safe(lambda: a == b)
                    grp.case(got is not True, f"{name}: non-isomorphic graphs compare equal: {x.describe()} vs {y.describe()}", eq_body(x, y, ox, oy, False), sample=name)
        grp.close()
    # (4) different classes never equal
    grp = Group(rep, "C02/bounded/cross-class-pairs-never-equal")
    for name, n, edges in skeletons()[:14]:
        refs = {k: mk(k, n, edges, [6] * n) for k in KINDS}
        reals = {k: build_real(r) for k, r in refs.items()}
        for k1, k2 in itertools.permutations(KINDS, 2):
            got, err = safe(lambda: reals[k1] == reals[k2])
            grp.case(got is not True, f"{k1} graph == {k2} graph of skeleton {name} -> {got}",
                     f"a = build_real({ref_code(refs[k1])}); b = build_real({ref_code(refs[k2])})\ngot = (a == b)\nprint(type(a).__name__, '==', type(b).__name__, '->', got)\nok = got is not True\n",
                     sample=f"{k1} vs {k2} on {name}")
    grp.close()
    rep.distinct_nontrivial = distinct


HASH_SUBPROC = r'''
import sys, json
sys.path.insert(0, '/verif')
from vf.e3.eqhash import seed_corpus
from vf.spec.refmodel import build_real
out = {}
for name, ref in seed_corpus():
    try:
        out[name] = hash(build_real(ref))
    except Exception as e:
        out[name] = 'raised ' + type(e).__name__
print(json.dumps(out))
'''


def seed_corpus():
    out = []
    for kind in KINDS:
        for name, ref in corpus(kind, 12345)[:: 3]:
            if ref.atoms:
                out.append((f"{kind}/{name}", ref))
    return out


def run_c03(rep, tier, seed):
    import json
    import os
    import subprocess

    from .. import REPO, VERIF

    rng = random.Random(seed + 3)
    n_var = 3 if tier == "quick" else 12
    distinct = 0
    for kind in KINDS:
        G = {n: Group(rep, f"C03/bounded/{kind}/{n}") for n in
             ("equal-graphs-equal-hashes", "hash-independent-of-identifiers", "hash-independent-of-insertion-order",
              "hash-independent-of-descriptor-spelling(incl. mirrored ordering with opposite parity)")}
        for name, ref in corpus(kind, seed):
            if not ref.atoms or not ref.fully_specified():
                continue
            distinct += 1
            a = build_real(ref)
            ha, erra = safe(lambda: hash(a))
            for v in range(n_var):
                f = random_renaming(ref, rng, weird=(v % 2 == 0))
                o = rng.randrange(10**6)
                for gname, rb, ob in (("hash-independent-of-identifiers", ref.relabel(f.get), None),
                                      ("hash-independent-of-insertion-order", ref, o),
                                      ("hash-independent-of-descriptor-spelling(incl. mirrored ordering with opposite parity)", respell(ref, rng), None)):
                    if not ref.stereo_kind and gname.startswith("hash-independent-of-descriptor"):
                        continue
                    b, errb = safe(lambda: build_real(rb, ob))
                    if errb:
                        continue
                    hb, errh = safe(lambda: hash(b))
                    body = (f"a = build_real({ref_code(ref)}); b = build_real({ref_code(rb)}, {ob!r})\n"
                            f"ha, hb = hash(a), hash(b)\nprint(ha, hb)\nok = ha == hb\n")
                    G[gname].case(ha == hb and not erra and not errh, f"{name}: hash differs for a re-expressed graph: {ha} vs {hb} {erra or ''} {errh or ''}; variant {rb.describe()}", body,
                                  sample=ref.describe())
                    eq, erre = safe(lambda: a == b)
                    if eq is True:
                        G["equal-graphs-equal-hashes"].case(ha == hb, f"{name}: a == b but hash {ha} != {hb}",
                                                            f"a = build_real({ref_code(ref)}); b = build_real({ref_code(rb)}, {ob!r})\nok = not (a == b) or hash(a) == hash(b)\n")
        for g in G.values():
            g.close()
    # process independence
    grp = Group(rep, "C03/bounded/hash-independent-of-PYTHONHASHSEED")
    py = os.path.join(VERIF, ".venv", "bin", "python")
    results = {}
    seeds = ["0", "1", "2", "random"] if tier == "quick" else ["0", "1", "2", "3", "77", "12345", "random", "random"]
    for s in seeds:
        env = dict(os.environ)
        env["PYTHONHASHSEED"] = s
        env["PYTHONPATH"] = os.path.join(REPO, "src") + ":" + VERIF
        p = subprocess.run([py, "-c", HASH_SUBPROC], capture_output=True, text=True, env=env, timeout=600)
        if p.returncode != 0:
            grp.case(False, f"hash subprocess failed: {p.stderr[-300:]}", None)
            continue
        results[s + str(len(results))] = json.loads(p.stdout.strip().splitlines()[-1])
    keys = list(results)
    if keys:
        first = results[keys[0]]
        for name in first:
            vals = {k: results[k][name] for k in keys}
            body = ("import subprocess, os, json\nfrom vf.e3.eqhash import HASH_SUBPROC\nvals = set()\n"
                    "for s in ('0', '1', '2', '12345'):\n    env = dict(os.environ, PYTHONHASHSEED=s, PYTHONPATH='" + os.path.join(REPO, "src") + ":/verif')\n"
                    "    out = subprocess.run([sys.executable, '-c', HASH_SUBPROC], capture_output=True, text=True, env=env).stdout\n"
                    f"    vals.add(json.loads(out.strip().splitlines()[-1])[{name!r}])\nprint(vals)\nok = len(vals) == 1\n")
            grp.case(len(set(vals.values())) == 1, f"hash of {name} depends on the string-hash seed: {vals}", body, sample=name)
    grp.close()
    rep.distinct_nontrivial = distinct
