#!/bin/sh
# tools/try_mutant.sh <patch.diff> <property-id> [tier]   -- applies the patch to /repo, runs the check, reverts.
P="$1"; ID="$2"; TIER="${3:-quick}"
cd /repo || exit 9
if ! git diff --quiet; then echo "repo dirty"; exit 9; fi
if ! git apply "$P" 2>/dev/null; then
  if ! git apply --3way "$P" 2>/dev/null; then echo "PATCH-DOES-NOT-APPLY $P"; git reset -q --hard HEAD; exit 8; fi
  git reset -q
fi
cd /verif; ./check "$ID" "$TIER" 2>&1 | grep -E "VIOLATION|KNOWN|UNDECIDED|CHECKER|^\[" | cut -c1-300 | head -${LINES_MAX:-12}
RC=$?
cd /repo && git checkout -- . && git clean -fdq src
