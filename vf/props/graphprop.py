"""Shared driver for the properties decided on the graph-class methods (C09, C19): E1 obligations
(contracts in vf/contracts/graph_ops.py, VCs from the real AST, z3) + the bounded lockstep exploration (E3)
as companion and witness search."""
import time

from ..core import Report
from ..e3 import history
from ..par import pmap
from ..pyvc.world import World
from . import e1_graph

CLAUSES = {"C09": ("view-matches-reference", "coherent"), "C19": ("rejected-raises-and-changes-nothing", "failed-request-changes-nothing")}
LEVEL = {"C19": "proof", "C09": "other"}


def run(pid, tier, seed):
    t0 = time.time()
    rep = Report(pid, tier, seed)
    timeout = 8000 if tier == "quick" else 40000
    for obs, _ in pmap("vf.props.e1_graph", e1_graph.tasks(pid, timeout, queries=(pid == "C19"), tier=tier)):
        rep.obs.extend(obs)
    history.run_histories(rep, pid, tier, seed, CLAUSES[pid], with_queries=True)
    e1_graph.attach_bounded_witnesses(rep)
    rep.functions = e1_graph.functions_under_contract(World())
    proof = [o for o in rep.obs if o.kind == "proof"]
    bounded = [o for o in rep.obs if o.kind == "bounded"]
    rep.level = LEVEL[pid]
    rep.trusted_base = [
        "pyvc: encoding of CPython semantics for the constructs used by the graph classes (dict/set/frozenset/tuple, exceptions, ** arguments, MRO, properties), symbolic heap of z3 arrays",
        "assumed contracts: copy.deepcopy (structural copy, all mutable objects fresh), types.MappingProxyType (read-through view), PERIODIC_TABLE as uninterpreted partial function with pt_ok(v) => is_elem(pt(v)), is_elem(v) => pt(v) = v",
        "atom identifiers are ints, attribute names are strings, attribute values opaque",
        "z3 5.1 (E-matching, no MBQI); ground instances of the assumed invariant are added on demand",
    ]
    rep.assumptions = [
        "loops (remove_atom of the four classes) are verified with side-car loop invariants (vf/contracts/loop_invariants.py): init / preservation on a generic element / exit; iteration order arbitrary; termination not proved",
        "E3 companion: universe of 4 identifiers, depth / walk bounds in vf/e3/history.py",
    ]
    rep.rule = "E1: one VC per (class, method, symbolic path, clause); E3: lockstep histories; distinct_nontrivial = distinct (class, start, history) states of the bounded part"
    rep.explanation = (f"{len(proof)} proof obligations (unbounded: arbitrary well-formed graph, arbitrary identifiers / keys / values) and {len(bounded)} bounded entries "
                       "(loop-unrolled VCs and lockstep history groups, listed in coverage.bounded_groups)")
    rep.samples = [o.name for o in proof[:: max(1, len(proof) // 8)]][:8]
    return rep, t0
