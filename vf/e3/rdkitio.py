"""Bounded contracts on the RDKit side: C12 (import independent of representation) and C13 (export -> import round trip).
RDKit is an external C++ dependency: assumed, not verified."""
from __future__ import annotations

import itertools
import random

from ..spec.groups import FIGS, groups
from ..spec.refmodel import Ref, build_real, descr_eq, snapshot
from .geom import same_graph
from .harness import Group, ref_code, safe

TET = ["[C@H](F)(Cl)Br", "[C@@H](F)(Cl)Br", "C[C@H](O)C(=O)O", "N[C@@H](C)C(=O)O", "C[C@H]1CC[C@@H](C)CC1", "C[C@H]1CC[C@H](C)CC1", "F[C@](Cl)(Br)I",
       "C[C@H](N)[C@@H](C)O", "C[C@@H](N)[C@@H](C)O", "O[C@H]1CCCC[C@H]1O", "C[S@](=O)CC", "C[S@@](=O)CC", "C[P@](CC)C=C"]
EZ = ["F/C=C/F", "F/C=C\\F", "C/C=C/C", "C/C=C\\C", "C/C=C/Cl", "C/C=C(/F)Cl", "CC/C=C(\\C)Cl", "C/N=C/C", "C/N=C\\C", "F/C=C/C=C/F", "F/C=C/C=C\\F"]
PLAIN = ["CCO", "c1ccccc1", "C1CC1", "CC(=O)O", "C=C", "C#N"]


def load(smiles):
    from rdkit import Chem

    m = Chem.MolFromSmiles(smiles)
    if m is None:
        return None
    return Chem.AddHs(m)


def imp(mol, **kw):
    from stereomolgraph import StereoMolGraph

    return StereoMolGraph.from_rdmol(mol, **kw)


def c12_renumber_case(smiles, perm):
    from rdkit import Chem

    m = load(smiles)
    g0, e0 = safe(lambda: imp(m))
    m2 = Chem.RenumberAtoms(m, list(perm))  # new atom i is old atom perm[i]
    g1, e1 = safe(lambda: imp(m2))
    if e0 or e1:
        return False, f"import raised: {e0} / {e1}"
    o2n = {old: new for new, old in enumerate(perm)}
    why = same_graph(snapshot(g1), snapshot(g0).relabel(o2n.get))
    if why:
        return False, why
    eq, e2 = safe(lambda: (g0 == g1) and hash(g0) == hash(g1))
    if eq is not True:
        return False, f"renumbered import not equal / hash differs: {e2 or eq}"
    return True, ""


def c12_spelling_case(smiles, seed):
    from rdkit import Chem
    from rdkit.Chem import rdmolfiles

    m = load(smiles)
    base = Chem.MolFromSmiles(smiles)
    sm2 = Chem.MolToSmiles(base, doRandom=True, canonical=False) if False else None
    try:
        from rdkit import rdBase

        rdBase.SeedRandomNumberGenerator(seed)
        sm2 = Chem.MolToSmiles(base, doRandom=True)
    except Exception:  # noqa
        sm2 = Chem.MolToSmiles(base, rootedAtAtom=seed % base.GetNumAtoms())
    m2 = load(sm2)
    if m2 is None or Chem.MolToSmiles(Chem.MolFromSmiles(sm2)) != Chem.MolToSmiles(base):
        return True, ""  # RDKit itself does not consider the re-spelling the same molecule: not our business
    g0, e0 = safe(lambda: imp(m))
    g1, e1 = safe(lambda: imp(m2))
    if e0 or e1:
        return False, f"import raised: {e0} / {e1}"
    eq, e2 = safe(lambda: (g0 == g1) and hash(g0) == hash(g1))
    return (eq is True), f"{smiles} vs {sm2}: imports are not equal or hash differs: {e2 or eq}"


def complex_smiles(cls, label):
    if cls == "SP":
        return f"F[Pt@SP{label}](Cl)(Br)I"
    if cls == "TB":
        return f"S[As@TB{label}](F)(Cl)(Br)N"
    return f"O[Co@OH{label}](Cl)(C)(N)(F)P"


def run_c12(rep, tier, seed):
    rng = random.Random(seed + 12)
    distinct = 0
    G = {n: Group(rep, f"C12/bounded/{n}") for n in ("tetrahedral/renumbering", "double-bond/renumbering", "plain/renumbering", "coordination-complexes/renumbering",
                                                     "alternative-smiles-spellings", "atom-map-import-is-renamed-index-import",
                                                     "stereoisomers-unequal/tetrahedral", "stereoisomers-unequal/E-Z", "stereoisomers-unequal/SP-labels",
                                                     "stereoisomers-unequal/TB-labels", "stereoisomers-unequal/OH-labels")}
    fam = [("tetrahedral/renumbering", TET), ("double-bond/renumbering", EZ), ("plain/renumbering", PLAIN),
           ("coordination-complexes/renumbering", [complex_smiles("SP", i) for i in (1, 2, 3)] + [complex_smiles("TB", i) for i in (1, 5, 9, 14, 20)] + [complex_smiles("OH", i) for i in (1, 2, 7, 19, 30)])]
    for gname, smis in fam:
        for smi in smis:
            m = load(smi)
            if m is None:
                continue
            distinct += 1
            n = m.GetNumAtoms()
            heavy = [a.GetIdx() for a in m.GetAtoms() if a.GetAtomicNum() != 1]
            perms = []
            if len(heavy) <= 4 and tier != "quick":
                for hp in itertools.permutations(heavy):
                    p = list(range(n))
                    for src, dst in zip(heavy, hp):
                        p[src] = dst
                    perms.append(p)
            for _ in range(4 if tier == "quick" else 30):
                p = list(range(n))
                rng.shuffle(p)
                perms.append(p)
            for p in perms:
                ok, why = c12_renumber_case(smi, p)
                G[gname].case(ok, f"{smi} renumbered {p}: {why}", f"from vf.e3.rdkitio import c12_renumber_case\nok, why = c12_renumber_case({smi!r}, {p!r})\nprint(why)\n", sample=smi)
    for smi in TET + EZ + PLAIN:
        for k in range(3 if tier == "quick" else 15):
            s = rng.randrange(1, 10**6)
            ok, why = c12_spelling_case(smi, s)
            G["alternative-smiles-spellings"].case(ok, why, f"from vf.e3.rdkitio import c12_spelling_case\nok, why = c12_spelling_case({smi!r}, {s})\nprint(why)\n", sample=smi)
    # incl. ring double bonds and aromatic rings (cis inferred from the ring), whose import branch handles neighbours separately
    for smi in TET[:6] + EZ[:4] + [complex_smiles("SP", 2), complex_smiles("TB", 7), complex_smiles("OH", 11)] + ["c1ccccc1", "Cc1ccccc1", "c1ccncc1", "C1=CCCCC1", "C1=CC=CC1", "CC1=CCC=C1F", "c1ccc2ccccc2c1"]:
        m = load(smi)
        for variant in range(2):
            nums = rng.sample(range(1, 900), m.GetNumAtoms()) if variant == 0 else [i + 1 for i in range(m.GetNumAtoms())]
            ok, why = c12_mapnum_case(smi, nums)
            G["atom-map-import-is-renamed-index-import"].case(ok, f"{smi}: {why}", f"from vf.e3.rdkitio import c12_mapnum_case\nok, why = c12_mapnum_case({smi!r}, {nums!r})\nprint(why)\n", sample=smi)
    # stereoisomers import to pairwise unequal graphs
    pairs = [("[C@H](F)(Cl)Br", "[C@@H](F)(Cl)Br"), ("F[C@](Cl)(Br)I", "F[C@@](Cl)(Br)I"), ("C[S@](=O)CC", "C[S@@](=O)CC"), ("C[C@H](N)[C@@H](C)O", "C[C@@H](N)[C@@H](C)O")]
    for a, b in pairs:
        ga, gb = imp(load(a)), imp(load(b))
        G["stereoisomers-unequal/tetrahedral"].case(not (ga == gb), f"{a} and {b} import to equal graphs", f"from vf.e3.rdkitio import imp, load\nok = not (imp(load({a!r})) == imp(load({b!r})))\n", sample=[a, b])
    for a, b in (("F/C=C/F", "F/C=C\\F"), ("C/C=C/C", "C/C=C\\C"), ("C/C=C/Cl", "C/C=C\\Cl"), ("CC/C=C(\\C)Cl", "CC/C=C(/C)Cl"), ("C/N=C/C", "C/N=C\\C")):
        ga, gb = imp(load(a)), imp(load(b))
        G["stereoisomers-unequal/E-Z"].case(not (ga == gb), f"{a} and {b} import to equal graphs", f"from vf.e3.rdkitio import imp, load\nok = not (imp(load({a!r})) == imp(load({b!r})))\n", sample=[a, b])
    for cls, nlab, gname in (("SP", 3, "stereoisomers-unequal/SP-labels"), ("TB", 20, "stereoisomers-unequal/TB-labels"), ("OH", 30, "stereoisomers-unequal/OH-labels")):
        gs = {}
        for lab in range(1, nlab + 1):
            g, e = safe(lambda: imp(load(complex_smiles(cls, lab))))
            if e:
                G[gname].case(False, f"{complex_smiles(cls, lab)}: import raised {e}", f"from vf.e3.rdkitio import imp, load\nimp(load({complex_smiles(cls, lab)!r})); ok = True\n")
            else:
                gs[lab] = g
        for x, y in itertools.combinations(sorted(gs), 2):
            a, b = complex_smiles(cls, x), complex_smiles(cls, y)
            G[gname].case(not (gs[x] == gs[y]), f"permutation labels {x} and {y} of {cls} import to equal graphs", f"from vf.e3.rdkitio import imp, load\nok = not (imp(load({a!r})) == imp(load({b!r})))\n", sample=[a, b])
    for g in G.values():
        g.close()
    rep.distinct_nontrivial = distinct


# ------------------------------------------------------------------------------------------------ C13
def roundtrip(ref: Ref, order_seed=None, generate_bond_orders=False):
    from stereomolgraph import StereoMolGraph

    g = build_real(ref, order_seed)
    from ..spec.refmodel import raw_state

    before = raw_state(g)
    mol, _ = g._to_rdmol(generate_bond_orders=generate_bond_orders)
    after = raw_state(g)
    back = StereoMolGraph.from_rdmol(mol, use_atom_map_number=True)
    return g, back, before == after


def c12_mapnum_case(smi, nums):
    """import by atom map numbers == import by index, renamed"""
    m = load(smi)
    for a, k in zip(m.GetAtoms(), nums):
        a.SetAtomMapNum(k)
    g0, e0 = safe(lambda: imp(m))
    g1, e1 = safe(lambda: imp(m, use_atom_map_number=True))
    if e0 or e1:
        return False, f"import raised {e0 or e1}"
    d = same_graph(snapshot(g1), snapshot(g0).relabel(lambda i: nums[i]))
    return d is None, str(d)


def c13_case(ref: Ref, order_seed, what="atom", generate_bond_orders=False):
    res, err = safe(lambda: roundtrip(ref, order_seed, generate_bond_orders))
    if err:
        return False, f"export/import raised {err}"
    g, back, untouched = res
    if not untouched:
        return False, "the export changed the exported graph"
    b = snapshot(back)
    if {a: v["atom_type"] for a, v in b.atoms.items()} != {a: v["atom_type"] for a, v in ref.atoms.items()} or set(b.bonds) != set(ref.bonds):
        return False, "atoms / elements / bonds differ after the round trip"
    if what == "atom":
        for a, d in ref.atom_stereo.items():
            if a not in b.atom_stereo or not descr_eq(b.atom_stereo[a], d):
                return False, f"atom {a}: exported {d}, re-imported {b.atom_stereo.get(a)}"
    else:
        for k, d in ref.bond_stereo.items():
            if k not in b.bond_stereo or not descr_eq(b.bond_stereo[k], d):
                return False, f"bond {sorted(k)}: exported {d}, re-imported {b.bond_stereo.get(k)}"
    return True, ""


def c13_body(ref, order_seed, what="atom", gbo=False):
    return f"from vf.e3.rdkitio import c13_case\nok, why = c13_case({ref_code(ref)}, {order_seed!r}, {what!r}, {gbo!r})\nprint(why)\n"


def star(cname, ids, elems, lig_order, parity, lone_pair=False, lp_pos=None):
    r = Ref("SMG")
    c, ligs = ids[0], ids[1:]
    r.atoms[c] = {"atom_type": elems[0]}
    for a, e in zip(ligs, elems[1:]):
        r.atoms[a] = {"atom_type": e}
        r.bonds[frozenset((c, a))] = {}
    atoms = (c,) + tuple(ligs[i] for i in lig_order) + ((None,) if lone_pair else ())
    if lone_pair and lp_pos is not None:
        # the placeholder at any ligand position (the importer only ever produces it last)
        real = [a for a in atoms[1:] if a is not None]
        real.insert(lp_pos - 1, None)
        atoms = (c,) + tuple(real)
    r.atom_stereo[c] = (cname, atoms, parity)
    return r


def run_c13(rep, tier, seed):
    rng = random.Random(seed + 13)
    distinct = 0
    specs = [("Tetrahedral", 4, (1, -1, None), False, "tetrahedral"), ("Tetrahedral", 3, (1, -1, None), True, "tetrahedral-with-lone-pair"),
             ("SquarePlanar", 4, (0, None), False, "square-planar"), ("TrigonalBipyramidal", 5, (1, -1), False, "trigonal-bipyramidal"),
             ("Octahedral", 6, (1, -1), False, "octahedral")]
    centre_elem = {"Tetrahedral": 6, "SquarePlanar": 78, "TrigonalBipyramidal": 15, "Octahedral": 16}
    for cname, k, pars, lp, gname in specs:
        grp = Group(rep, f"C13/bounded/star/{gname}")
        lig_elems = [9, 17, 35, 53, 1, 8][:k]
        orders = list(itertools.permutations(range(k)))
        if len(orders) > (24 if tier == "quick" else 240):
            orders = rng.sample(orders, 24 if tier == "quick" else 240)
        for lig_order in orders:
            for par in pars:
                ids = rng.sample(range(1, 500), k + 1)
                ref = star(cname, ids, [7 if lp else centre_elem[cname]] + lig_elems, lig_order, par, lp, rng.randint(1, 4) if lp else None)
                distinct += 1
                for os_ in (None, rng.randrange(10**6)):
                    ok, why = c13_case(ref, os_)
                    grp.case(ok, f"{cname} {ref.atom_stereo[ids[0]]} insertion seed {os_}: {why}", c13_body(ref, os_), sample=ref.describe())
        grp.close()
    # a tetrahedral ligand atom on an octahedral / trigonal-bipyramidal / square-planar centre: exporting one centre must not
    # disturb the other (the octahedral branch of the exporter re-adds the bonds of its centre)
    grp = Group(rep, "C13/bounded/two-centres/tetrahedral-ligand-on-a-coordination-centre")
    for cname, k, pars, lp, gname in specs[2:]:
        for t in range(12 if tier == "quick" else 120):
            ids = [10] + list(range(1, k + 1))
            order = list(range(k))
            rng.shuffle(order)
            r = star(cname, ids, [centre_elem[cname], 6] + [9, 17, 35, 53, 1, 8][: k - 1], order, rng.choice([p for p in pars if p is not None]))
            for a, e in zip((21, 22, 23), (9, 17, 1)):
                r.atoms[a] = {"atom_type": e}
                r.bonds[frozenset((1, a))] = {}
            tl = [10, 21, 22, 23]
            rng.shuffle(tl)
            r.atom_stereo[1] = ("Tetrahedral", (1, *tl), rng.choice([1, -1]))
            distinct += 1
            os_ = rng.randrange(10**6)
            ok, why = c13_case(r, os_)
            grp.case(ok, f"{cname} centre with a tetrahedral ligand, insertion seed {os_}: {why}", c13_body(r, os_), sample=r.describe())
    grp.close()
    # adjacent stereocentres, E/Z with regenerated bond orders, molecules imported from SMILES
    grp = Group(rep, "C13/bounded/imported-organic-molecules/atom-stereo")
    grp2 = Group(rep, "C13/bounded/isolated-double-bonds/E-Z-with-regenerated-bond-orders")
    from stereomolgraph import StereoMolGraph

    for smi in TET + PLAIN:
        m = load(smi)
        g0, e0 = safe(lambda: imp(m))
        if e0:
            continue
        ref = snapshot(g0).relabel(lambda i: i + 1)  # atom map numbers must be positive
        ref.bond_stereo = {}
        distinct += 1
        for os_ in (None, rng.randrange(10**6)):
            ok, why = c13_case(ref, os_)
            grp.case(ok, f"{smi}: {why}", c13_body(ref, os_), sample=smi)
    for smi in ("F/C=C/F", "F/C=C\\F", "C/C=C/C", "C/C=C\\C", "C/C=C/Cl", "CC/C=C(\\C)Cl"):
        m = load(smi)
        g0, e0 = safe(lambda: imp(m))
        if e0:
            continue
        ref = snapshot(g0).relabel(lambda i: i + 1)
        ref.atom_stereo = {}
        ref.bond_stereo = {k: d for k, d in ref.bond_stereo.items() if d[2] is not None and ref.atoms[min(k)]["atom_type"] == 6 and ref.atoms[max(k)]["atom_type"] == 6
                           and None not in d[1]}
        distinct += 1
        for os_ in (None, rng.randrange(10**6)):
            ok, why = c13_case(ref, os_, "bond", True)
            grp2.case(ok, f"{smi}: {why}", c13_body(ref, os_, "bond", True), sample=smi)
    grp.close()
    grp2.close()
    rep.distinct_nontrivial = distinct
