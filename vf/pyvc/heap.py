"""Symbolic heap for pyvc (DESIGN 2.2): mutable Python containers of unbounded symbolic content are
REFERENCES into functional heaps of z3 arrays, so that aliasing, sharing and freshness are first class.

  dict type T (key sort K, value sort V):  dom_T : Array Ref (Array K Bool),  val_T : Array Ref (Array K V)
  set  type S (element sort E)          :  mem_S : Array Ref (Array E Bool)

Pre-state references are < A0 (a symbolic integer); references allocated during the call are A0, A0+1, ...
(concrete offsets), references produced by deepcopy live in a fresh block [C, C+A0).

Iteration over a symbolic container has no concrete structure.  Two mechanisms:
  * bounded symbolic unrolling (the obligation is then labelled *bounded*, never proved): the container is
    assumed to hold exactly j <= K elements e1..ej (j forked, the ei symbolic and pairwise distinct);
  * side-car loop invariants / comprehension axioms (unbounded), see graph contracts.
"""
from __future__ import annotations

import z3

from .interp import (Builtin, ClassRef, NotHandled, Obj, OutOfSubset, PyRaise, KeyStr, _native)
from .values import OI, And_, B, Not_, Or_, is_sym, oi_of, veq

# ------------------------------------------------------------------------------------------------ sorts
RefS = z3.IntSort()
KeyS = z3.DeclareSort("Key")
US = z3.DeclareSort("U")  # opaque python values
ChgS, (FORMED, FLEETING, BROKEN) = z3.EnumSort("Chg", ["FORMED", "FLEETING", "BROKEN"])
CHG = {"FORMED": FORMED, "FLEETING": FLEETING, "BROKEN": BROKEN}

ValS = z3.Datatype("Val")
ValS.declare("VNone")
ValS.declare("VChg", ("chg", ChgS))
ValS.declare("VInt", ("ival", z3.IntSort()))
ValS.declare("VU", ("u", US))
ValS = ValS.create()

OIntS = z3.Datatype("OInt")
OIntS.declare("ONone")
OIntS.declare("OSome", ("ov", z3.IntSort()))
OIntS = OIntS.create()

BondS = z3.Datatype("Bond")
BondS.declare("mkbond", ("lo", z3.IntSort()), ("hi", z3.IntSort()))
BondS = BondS.create()

DESCR_CLASSES = ["Tetrahedral", "SquarePlanar", "TrigonalBipyramidal", "Octahedral", "PlanarBond", "AtropBond"]
DESCR_LEN = {"Tetrahedral": 5, "SquarePlanar": 5, "TrigonalBipyramidal": 6, "Octahedral": 7, "PlanarBond": 6, "AtropBond": 6}
ClsS, CLS_CONSTS = z3.EnumSort("DCls", DESCR_CLASSES)
CLS = dict(zip(DESCR_CLASSES, CLS_CONSTS))
DescrS = z3.Datatype("Descr")
DescrS.declare("mkd", ("dcls", ClsS), *[(f"a{i}", OIntS) for i in range(7)], ("par", OIntS))
DescrS = DescrS.create()
ODescrS = z3.Datatype("ODescr")
ODescrS.declare("DNone")
ODescrS.declare("DSome", ("dd", DescrS))
ODescrS = ODescrS.create()

K_ATOM_TYPE = z3.Const("K_atom_type", KeyS)
K_REACTION = z3.Const("K_reaction", KeyS)
KEY_CONSTS = {"atom_type": K_ATOM_TYPE, "reaction": K_REACTION}

is_elem = z3.Function("is_elem", ValS, z3.BoolSort())  # value is an Element (int 1..118)
pt_ok = z3.Function("pt_ok", ValS, z3.BoolSort())  # value is a key of PERIODIC_TABLE
pt = z3.Function("pt", ValS, ValS)  # PERIODIC_TABLE[value]


chg_raw_value = z3.Function("chg_raw_value", ValS, z3.BoolSort())  # value == "formed" / "fleeting" / "broken" (a plain str)


def key_const(name):
    if name not in KEY_CONSTS:
        KEY_CONSTS[name] = z3.Const(f"K_{name}", KeyS)
    return KEY_CONSTS[name]


def background_axioms():
    v = z3.Const("v!pt", ValS)
    ax = [
        z3.ForAll([v], z3.Implies(pt_ok(v), is_elem(pt(v))), patterns=[pt(v)]),
        z3.ForAll([v], z3.Implies(is_elem(v), z3.And(pt_ok(v), pt(v) == v)), patterns=[is_elem(v)]),
        z3.Distinct(*KEY_CONSTS.values()) if len(KEY_CONSTS) > 1 else z3.BoolVal(True),
    ]
    return ax


def mkbond(a, b):
    a, b = _int(a), _int(b)
    return BondS.mkbond(z3.If(a <= b, a, b), z3.If(a <= b, b, a))


def _int(x):
    if isinstance(x, OI):
        return x.val if not isinstance(x.val, int) else z3.IntVal(x.val)
    if isinstance(x, bool):
        return z3.IntVal(int(x))
    if isinstance(x, int):
        return z3.IntVal(x)
    return x


# ------------------------------------------------------------------------------------------------ dict / set types
class DictType:
    def __init__(self, name, ksort, vsort, vkind):
        self.name, self.ksort, self.vsort, self.vkind = name, ksort, vsort, vkind  # vkind: how values are wrapped
        self.dom_sort = z3.ArraySort(RefS, z3.ArraySort(ksort, z3.BoolSort()))
        self.val_sort = z3.ArraySort(RefS, z3.ArraySort(ksort, vsort))

    def __repr__(self):
        return f"<dict type {self.name}>"


class SetType:
    def __init__(self, name, esort):
        self.name, self.esort = name, esort
        self.mem_sort = z3.ArraySort(RefS, z3.ArraySort(esort, z3.BoolSort()))


D_ATTR = DictType("attr", KeyS, ValS, "val")
D_ATOMS = DictType("atoms", z3.IntSort(), RefS, ("ref", "attr"))
D_BONDS = DictType("bonds", BondS, RefS, ("ref", "attr"))
D_NBRS = DictType("nbrs", z3.IntSort(), RefS, ("setref", "iset"))
D_ASTEREO = DictType("astereo", z3.IntSort(), DescrS, "descr")
D_BSTEREO = DictType("bstereo", BondS, DescrS, "descr")
D_ACHG = DictType("achg", z3.IntSort(), RefS, ("ref", "chg"))
D_BCHG = DictType("bchg", BondS, RefS, ("ref", "chg"))
D_CHG = DictType("chg", ChgS, ODescrS, "odescr")
D_INTINT = DictType("intint", z3.IntSort(), z3.IntSort(), "int")
S_INT = SetType("iset", z3.IntSort())
S_BOND = SetType("bset", BondS)
DICT_TYPES = {t.name: t for t in (D_ATTR, D_ATOMS, D_BONDS, D_NBRS, D_ASTEREO, D_BSTEREO, D_ACHG, D_BCHG, D_CHG, D_INTINT)}
SET_TYPES = {t.name: t for t in (S_INT, S_BOND)}


class Heap:
    """functional heap: one (dom, val) pair per dict type, one mem per set type; plus allocation state"""

    def __init__(self, tag="0"):
        self.dom = {n: z3.Const(f"dom_{n}!{tag}", t.dom_sort) for n, t in DICT_TYPES.items()}
        self.val = {n: z3.Const(f"val_{n}!{tag}", t.val_sort) for n, t in DICT_TYPES.items()}
        self.mem = {n: z3.Const(f"mem_{n}!{tag}", t.mem_sort) for n, t in SET_TYPES.items()}
        self.A0 = z3.Int(f"A0!{tag}")
        self.base = self.A0  # allocation base: references handed out are base + 0, base + 1, ... (havocked by loops that allocate)
        self.n_alloc = 0
        self.n_blocks = 0

    def snapshot(self):
        h = Heap.__new__(Heap)
        h.dom, h.val, h.mem = dict(self.dom), dict(self.val), dict(self.mem)
        h.A0, h.n_alloc, h.n_blocks = self.A0, self.n_alloc, self.n_blocks
        h.base = self.base
        h.generic = None
        if hasattr(self, "block_top"):
            h.block_top = self.block_top
        return h

    def alloc(self):
        gen = getattr(self, "generic", None)
        if gen is not None:
            # inside the generic iteration of a summarised comprehension (vf/pyvc/summarise.py): the object created at the
            # i-th allocation site by the iteration of element x has the reference nr_i(x)
            tag, x, esort, log = gen
            f = z3.Function(f"nr!{tag}_{len(log)}", esort, z3.IntSort())
            r = f(x)
            log.append((f, r))
            return r
        r = self.base + self.n_alloc
        self.n_alloc += 1
        return z3.simplify(r)

    def top(self):
        """every reference handed out so far is below this bound"""
        bt = getattr(self, "block_top", None)
        return bt if bt is not None else self.base + self.n_alloc

    def havoc_alloc(self, interp, tag):
        """an unknown number of allocations has happened (loop iterations): fresh allocation base above the old top"""
        old = self.top()
        nb = z3.Int(f"T!{tag}")
        interp.assume(nb >= old)
        self.base, self.n_alloc = nb, 0
        if hasattr(self, "block_top"):
            del self.block_top

    # dict primitives
    def d_has(self, t, r, k):
        return z3.Select(z3.Select(self.dom[t.name], r), k)

    def d_get(self, t, r, k):
        return z3.Select(z3.Select(self.val[t.name], r), k)

    def d_set(self, t, r, k, v):
        n = t.name
        self.dom[n] = z3.Store(self.dom[n], r, z3.Store(z3.Select(self.dom[n], r), k, True))
        self.val[n] = z3.Store(self.val[n], r, z3.Store(z3.Select(self.val[n], r), k, v))

    def d_del(self, t, r, k):
        n = t.name
        self.dom[n] = z3.Store(self.dom[n], r, z3.Store(z3.Select(self.dom[n], r), k, False))

    def d_new(self, t):
        r = self.alloc()
        n = t.name
        self.dom[n] = z3.Store(self.dom[n], r, z3.K(t.ksort, z3.BoolVal(False)))
        return r

    def d_assign(self, t, r, dom_arr, val_arr):
        n = t.name
        self.dom[n] = z3.Store(self.dom[n], r, dom_arr)
        self.val[n] = z3.Store(self.val[n], r, val_arr)

    def s_has(self, t, r, e):
        return z3.Select(z3.Select(self.mem[t.name], r), e)

    def s_put(self, t, r, e, flag):
        n = t.name
        self.mem[n] = z3.Store(self.mem[n], r, z3.Store(z3.Select(self.mem[n], r), e, flag))

    def s_new(self, t):
        r = self.alloc()
        n = t.name
        self.mem[n] = z3.Store(self.mem[n], r, z3.K(t.esort, z3.BoolVal(False)))
        return r

    def s_assign(self, t, r, arr):
        self.mem[t.name] = z3.Store(self.mem[t.name], r, arr)


def heap_of(interp) -> Heap:
    return interp.state["heap"]


_CURRENT = {"interp": None}


# ------------------------------------------------------------------------------------------------ value wrappers
class ValTerm:
    """an attribute value (z3 Val)"""

    def __init__(self, t):
        self.t = t

    def sym_eq(self, other):
        o = to_val(other)
        return self.t == o if o is not None else False

    def sym_is_none(self):
        return self.t == ValS.VNone

    def sym_isinstance(self, interp, c):
        if isinstance(c, ChangeEnum):
            return ValS.is_VChg(self.t)
        return NotHandled

    def sym_truthy(self):
        # truthiness of an arbitrary attribute value is not modelled
        raise OutOfSubset("truth value of an attribute value")


class ChgMember:
    """Change.FORMED etc. (concrete)"""

    def __init__(self, name):
        self.name = name
        self.t = CHG[name]

    def sym_eq(self, other):
        if isinstance(other, ChgMember):
            return other.name == self.name
        if isinstance(other, ValTerm):
            return other.t == ValS.VChg(self.t)
        if isinstance(other, ChgTerm):
            return other.t == self.t
        return False

    def sym_getattr(self, interp, attr):
        if attr == "value":
            return self.name.lower()
        if attr == "name":
            return self.name
        return NotHandled

    def sym_isinstance(self, interp, c):
        if isinstance(c, ChangeEnum):
            return True
        return NotHandled

    def __repr__(self):
        return f"Change.{self.name}"


class ChgTerm:
    def __init__(self, t):
        self.t = t

    def sym_eq(self, other):
        if isinstance(other, ChgMember):
            return self.t == other.t
        if isinstance(other, ChgTerm):
            return self.t == other.t
        return False


class ChangeEnum:
    """the Enum class `Change`"""

    def sym_getattr(self, interp, attr):
        if attr in CHG:
            return ChgMember(attr)
        return NotHandled

    def sym_contains(self, interp, x):
        # Enum.__contains__ (3.12): true for members AND for raw member values such as the string "formed"
        if isinstance(x, ChgMember):
            return True
        if isinstance(x, ValTerm):
            return z3.Or(ValS.is_VChg(x.t), chg_raw_value(x.t))
        if isinstance(x, str):
            return x in ("formed", "fleeting", "broken")
        return False

    def sym_iter(self, interp):
        return [ChgMember("FORMED"), ChgMember("FLEETING"), ChgMember("BROKEN")]

    def sym_instancecheck(self, interp, o):
        if isinstance(o, ChgMember):
            return True
        if isinstance(o, ValTerm):
            return ValS.is_VChg(o.t)
        if isinstance(o, ChgTerm):
            return True
        return False


def to_val(x):
    """python/interp value -> z3 Val term (attribute values)"""
    if isinstance(x, ValTerm):
        return x.t
    if isinstance(x, ChgMember):
        return ValS.VChg(x.t)
    if x is None:
        return ValS.VNone
    if isinstance(x, bool):
        return ValS.VInt(z3.IntVal(int(x)))
    if isinstance(x, int):
        return ValS.VInt(z3.IntVal(x))
    if is_sym(x) and z3.is_int(x):
        return ValS.VInt(x)
    if isinstance(x, str):
        return ValS.VU(z3.Const(f"str_{x}", US))
    return None


def to_key(x):
    if isinstance(x, KeyStr):
        return key_const(x.s)
    if isinstance(x, str):
        return key_const(x)
    if isinstance(x, KeyTerm):
        return x.t
    raise OutOfSubset(f"attribute key {x!r}")


class KeyTerm:
    def __init__(self, t):
        self.t = t

    def sym_eq(self, other):
        try:
            return self.t == to_key(other)
        except OutOfSubset:
            return False


class BondVal:
    """frozenset({a,b}) with |.| == 2 not assumed: card 1 when lo == hi"""

    def __init__(self, t):
        self.t = t

    @property
    def lo(self):
        return BondS.lo(self.t)

    @property
    def hi(self):
        return BondS.hi(self.t)

    def sym_eq(self, other):
        if isinstance(other, BondVal):
            return self.t == other.t
        return False

    def sym_len(self, interp):
        return z3.If(self.lo == self.hi, 1, 2)

    def sym_contains(self, interp, x):
        if isinstance(x, OI):
            return And_(Not_(x.isnone), Or_(self.lo == _int(x), self.hi == _int(x)))
        if x is None:
            return False
        return Or_(self.lo == _int(x), self.hi == _int(x))

    def sym_iter(self, interp):
        # iteration order of a frozenset is unspecified: both orders are explored
        if interp.decide(self.lo == self.hi):
            return [self.lo]
        if interp.decide(z3.Bool(f"order!{interp.fresh_id()}")):
            return [self.lo, self.hi]
        return [self.hi, self.lo]

    def sym_unpack(self, interp, n):
        items = self.sym_iter(interp)
        return items

    def sym_star(self, interp):
        return self.sym_iter(interp)

    def sym_to_frozenset(self, interp):
        return self

    def sym_to_set(self, interp):
        from .values import FSet

        return FSet(self.sym_iter(interp))

    def sym_to_tuple(self, interp):
        return tuple(self.sym_iter(interp))


def as_bond(interp, x):
    """frozenset / Bond(...) constructor argument -> BondVal (exactly the 1- or 2-element case)"""
    from .values import FSet

    if isinstance(x, BondVal):
        return x
    if isinstance(x, FSet):
        items = [e for e, g in zip(x.elems, x.guards) if g is True]
        if len(items) != len(x.elems):
            raise OutOfSubset("guarded set as bond")
    else:
        items = interp.iterate(x)
    if len(items) == 1:
        return BondVal(mkbond(items[0], items[0]))
    if len(items) == 2:
        for it in items:
            if isinstance(it, OI) and interp.decide(it.isnone):
                raise OutOfSubset("None inside a bond")
        return BondVal(mkbond(items[0], items[1]))
    raise OutOfSubset(f"bond of {len(items)} atoms")


# descriptors ------------------------------------------------------------------------------------------------
def oi_term(x):
    x = oi_of(x) if not isinstance(x, OI) else x
    isn = B(x.isnone)
    return z3.If(isn, OIntS.ONone, OIntS.OSome(_int(x.val)))


def term_oi(t):
    return OI(z3.simplify(OIntS.is_ONone(t)), z3.simplify(OIntS.ov(t)))


def descr_term(obj):
    """interpreter descriptor object -> z3 Descr"""
    if isinstance(obj.fields.get("atoms"), LazyAtoms):
        return obj.term
    cname = obj.cls.name
    atoms = list(obj.fields["atoms"])
    n = DESCR_LEN[cname]
    if len(atoms) != n:
        raise OutOfSubset("descriptor length")
    slots = [oi_term(a) for a in atoms] + [OIntS.ONone] * (7 - n)
    return DescrS.mkd(CLS[cname], *slots, oi_term(obj.fields["parity"]))


class LazyAtoms:
    """the `atoms` tuple of a descriptor whose class has not been decided yet: positions 0..4 exist in every
    class (0..5 in the bond classes); anything that needs the length decides the class first"""

    def __init__(self, owner, t):
        self.owner, self.t = owner, t

    def slots(self, n):
        return tuple(term_oi(getattr(DescrS, f"a{i}")(self.t)) for i in range(n))

    def _min_len(self):
        return min(DESCR_LEN[c] for c in self.owner.candidates)

    def concrete(self, interp):
        resolve_descr_class(interp, self.owner)
        return self.owner.fields["atoms"]

    def sym_getitem(self, interp, k):
        n = self._min_len()
        if isinstance(k, int) and 0 <= k < n:
            return self.slots(n)[k]
        if isinstance(k, slice) and k.step is None and (k.stop is not None and 0 <= (k.start or 0) <= k.stop <= n):
            return self.slots(n)[k]
        return interp.getitem(self.concrete(interp), k)

    def sym_iter(self, interp):
        return list(self.concrete(interp))

    def sym_len(self, interp):
        return len(self.concrete(interp))

    def sym_contains(self, interp, x):
        # `x in descriptor.atoms` without deciding the class: position i counts iff i < len(class)
        if not isinstance(self.owner.fields.get("atoms"), LazyAtoms):
            return interp.contains(self.owner.fields["atoms"], x)
        c = DescrS.dcls(self.t)
        ln = z3.If(z3.Or(c == CLS["Tetrahedral"], c == CLS["SquarePlanar"]), 5, z3.If(c == CLS["Octahedral"], 7, 6))
        xo = x if isinstance(x, OI) else oi_of(x)
        xt = oi_term(xo)
        return z3.Or(*[z3.And(i < ln, getattr(DescrS, f"a{i}")(self.t) == xt) for i in range(7)])

    def sym_to_tuple(self, interp):
        return self.concrete(interp)

    def sym_candidates(self, interp):
        """the positions as a finite candidate collection (for all(...) / any(...) over the atoms): position i counts iff
        i < len(class) - no decision on the class"""
        from .values import FSet

        if not isinstance(self.owner.fields.get("atoms"), LazyAtoms):
            return FSet(list(self.owner.fields["atoms"]))
        c = DescrS.dcls(self.t)
        ln = z3.If(z3.Or(c == CLS["Tetrahedral"], c == CLS["SquarePlanar"]), 5, z3.If(c == CLS["Octahedral"], 7, 6))
        n = self._min_len()
        return FSet(list(self.slots(7)), [True if i < n else (i < ln) for i in range(7)])

    def sym_map(self, interp, f):
        """tuple(f(a) for a in descriptor.atoms) while the class is still open: the image position by position (f must be
        a pure, non-forking function of one atom)"""
        from .interp import NotHandled

        if not isinstance(self.owner.fields.get("atoms"), LazyAtoms):
            return NotHandled
        return LazyMappedAtoms(self.owner, [f(sl) for sl in self.slots(7)])

    def sym_eq(self, other):
        raise OutOfSubset("== on undecided descriptor atoms")


class LazyMappedAtoms:
    """the atoms of a class-undecided descriptor mapped position by position (see LazyAtoms.sym_map)"""

    def __init__(self, owner, slots):
        self.owner, self.mapped = owner, slots

    def concrete(self, interp):
        resolve_descr_class(interp, self.owner)
        return tuple(self.mapped[: len(self.owner.fields["atoms"])])

    def sym_iter(self, interp):
        return list(self.concrete(interp))

    def sym_len(self, interp):
        return len(self.concrete(interp))

    def sym_getitem(self, interp, k):
        return interp.getitem(self.concrete(interp), k)

    def sym_to_tuple(self, interp):
        return self.concrete(interp)


class LazyDescrClass:
    """`d.__class__` of a descriptor whose class is still open.  Calling it with the position-wise image of d's own atoms
    builds the descriptor of the SAME class - the contract of the constructor shared by all descriptor classes
    (_StereoMixin.__init__: length check, stores atoms and parity); anything else decides the class first."""

    def __init__(self, owner):
        self.owner = owner

    def sym_call(self, interp, args, kwargs):
        o = self.owner
        shared = {id(interp.world.cls(c).find("__init__")[1][1]) if interp.world.cls(c).find("__init__")[1] else None for c in o.candidates}
        if (len(args) == 2 and not kwargs and isinstance(args[0], LazyMappedAtoms) and args[0].owner is o and isinstance(o.fields.get("atoms"), LazyAtoms)
                and len(shared) == 1 and None not in shared):
            c = DescrS.dcls(o.term)
            ln = z3.If(z3.Or(c == CLS["Tetrahedral"], c == CLS["SquarePlanar"]), 5, z3.If(c == CLS["Octahedral"], 7, 6))
            slots = [oi_term(m) if i < 5 else z3.If(i < ln, oi_term(m), OIntS.ONone) for i, m in enumerate(args[0].mapped)]
            par = args[1]
            return descr_obj(interp, DescrS.mkd(c, *slots, oi_term(par if isinstance(par, OI) else oi_of(par))), list(o.candidates))
        resolve_descr_class(interp, o)
        from .interp import ClassRef

        a0 = args[0].concrete(interp) if isinstance(args[0], LazyMappedAtoms) else args[0]
        return interp.instantiate(o.cls, [a0] + list(args[1:]), kwargs)

    def sym_getattr(self, interp, attr):
        resolve_descr_class(interp, self.owner)
        from .interp import ClassRef

        return interp.getattr(ClassRef(self.owner.cls), attr)


def resolve_descr_class(interp, o):
    if len(o.candidates) == 1 and not isinstance(o.fields["atoms"], LazyAtoms):
        return
    t = o.term
    for cname in o.candidates:
        if interp.decide(DescrS.dcls(t) == CLS[cname]):
            o.cls = interp.world.cls(cname)
            o.candidates = [cname]
            o.fields["atoms"] = tuple(term_oi(getattr(DescrS, f"a{i}")(t)) for i in range(DESCR_LEN[cname]))
            return
    # unreachable for a well-formed table (W7/W8/W10/W11 fix the class family): the path condition now contradicts
    # the representation invariant, every obligation on this path is discharged vacuously
    raise PyRaise("Unreachable", "descriptor class outside the table's family")


def descr_obj(interp, t, allowed):
    """z3 Descr -> interpreter object; the class is decided lazily (only when the code depends on it)"""
    o = Obj(interp.world.cls(allowed[0]), {"parity": term_oi(DescrS.par(t))})
    o.term = t
    o.candidates = list(allowed)
    o.lazy_class = lambda it, o=o: LazyDescrClass(o)
    o.fields["atoms"] = LazyAtoms(o, t)
    if len(allowed) == 1:
        resolve_descr_class(interp, o)
    return o


ATOM_DESCR = ["Tetrahedral", "SquarePlanar", "TrigonalBipyramidal", "Octahedral"]
BOND_DESCR = ["PlanarBond", "AtropBond"]


# ------------------------------------------------------------------------------------------------ container refs
class DictRef:
    """a python dict living in the heap"""

    def __init__(self, t: DictType, ref, proxy=False, allowed_descr=None):
        self.t = t
        self.ref = ref
        self.proxy = proxy
        self.allowed_descr = allowed_descr

    # key / value conversions
    def k(self, interp, key):
        ks = self.t.ksort
        if ks == KeyS:
            return to_key(key)
        if ks == BondS:
            return as_bond(interp, key).t
        if ks == ChgS:
            if isinstance(key, ChgMember):
                return key.t
            if isinstance(key, ChgTerm):
                return key.t
            raise OutOfSubset("ChangeDict key")
        if isinstance(key, OI):
            if interp.decide(key.isnone):
                return None  # None is never a key of an int-keyed dict
            return _int(key)
        if key is None:
            return None
        if isinstance(key, (int,)) or (is_sym(key) and z3.is_int(key)):
            return _int(key)
        raise OutOfSubset(f"dict key {type(key).__name__} for {self.t.name}")

    def wrap(self, interp, v):
        vk = self.t.vkind
        if vk == "val":
            return ValTerm(v)
        if vk == "int":
            return v
        if vk == "descr":
            return descr_obj(interp, v, self.allowed_descr or (ATOM_DESCR if self.t is D_ASTEREO else BOND_DESCR))
        if vk == "odescr":
            if interp.decide(ODescrS.is_DNone(v)):
                return None
            return descr_obj(interp, ODescrS.dd(v), self.allowed_descr or DESCR_CLASSES)
        if isinstance(vk, tuple) and vk[0] == "ref":
            sub = DICT_TYPES[vk[1]]
            # change dictionaries reached through the atom (bond) change table hold atom (bond) descriptors: W10 / W11.
            # A descriptor of another family found there ends the path with `Unreachable`, whose infeasibility is an obligation.
            fam = ATOM_DESCR if self.t is D_ACHG else (BOND_DESCR if self.t is D_BCHG else None)
            return DictRef(sub, v, allowed_descr=self.allowed_descr or fam)
        if isinstance(vk, tuple) and vk[0] == "setref":
            return SetRef(SET_TYPES[vk[1]], v)
        raise OutOfSubset(vk)

    def unwrap(self, interp, v):
        vk = self.t.vkind
        if vk == "val":
            t = to_val(v)
            if t is None:
                raise OutOfSubset(f"attribute value {type(v).__name__}")
            return t
        if vk == "int":
            return _int(v)
        if vk == "descr":
            if isinstance(v, Obj):
                return descr_term(v)
            raise OutOfSubset("non-descriptor stored in a stereo table")
        if vk == "odescr":
            if v is None:
                return ODescrS.DNone
            return ODescrS.DSome(descr_term(v))
        if isinstance(vk, tuple) and vk[0] == "ref":
            if isinstance(v, DictRef) and v.t.name == vk[1]:
                return v.ref
            if isinstance(v, dict) and vk[1] == "attr":
                return materialise_attr(interp, v).ref
            raise OutOfSubset(f"value for {self.t.name}: {type(v).__name__}")
        if isinstance(vk, tuple) and vk[0] == "setref":
            if isinstance(v, SetRef):
                return v.ref
            from .values import FSet

            if isinstance(v, FSet):
                return materialise_set(interp, v, SET_TYPES[vk[1]]).ref
            raise OutOfSubset("set value")
        raise OutOfSubset(vk)

    # protocol ----------------------------------------------------------------------------------
    def sym_contains(self, interp, key):
        k = self.k(interp, key)
        if k is None:
            return False
        return heap_of(interp).d_has(self.t, self.ref, k)

    def sym_getitem(self, interp, key):
        k = self.k(interp, key)
        h = heap_of(interp)
        if k is None or not interp.decide(h.d_has(self.t, self.ref, k)):
            if self.t is D_CHG and k is not None:
                return None  # ChangeDict.__missing__ : None for every Change member, no insertion
            if getattr(self, "auto", False) and k is not None and isinstance(self.t.vkind, tuple) and self.t.vkind[0] == "ref":
                # collections.defaultdict(<dict class>): a missing key is created with a new empty dict
                sub = DICT_TYPES[self.t.vkind[1]]
                h.d_set(self.t, self.ref, k, h.d_new(sub))
                return self.wrap(interp, h.d_get(self.t, self.ref, k))
            raise PyRaise("KeyError")
        return self.wrap(interp, h.d_get(self.t, self.ref, k))

    def sym_setitem(self, interp, key, v):
        if self.proxy:
            raise PyRaise("TypeError", "mappingproxy does not support item assignment")
        k = self.k(interp, key)
        if k is None:
            raise OutOfSubset("None as dict key")
        heap_of(interp).d_set(self.t, self.ref, k, self.unwrap(interp, v))

    def sym_delitem(self, interp, key):
        if self.proxy:
            raise PyRaise("TypeError")
        k = self.k(interp, key)
        h = heap_of(interp)
        if k is None or not interp.decide(h.d_has(self.t, self.ref, k)):
            raise PyRaise("KeyError")
        h.d_del(self.t, self.ref, k)

    def sym_is(self, interp, other):
        if isinstance(other, DictRef):
            return And_(self.t is other.t, self.ref == other.ref)
        return False

    def sym_truthy(self):
        if self.t is D_CHG:
            h = heap_of(_CURRENT["interp"])
            return z3.Or(*[h.d_has(self.t, self.ref, c) for c in (FORMED, FLEETING, BROKEN)])
        raise OutOfSubset("truth value of a symbolic dict")

    def sym_len(self, interp):
        """len(d) as an uninterpreted cardinality of the key set: >= 0, and 0 exactly for the empty dict"""
        h = heap_of(interp)
        dom = z3.Select(h.dom[self.t.name], self.ref)
        card = z3.Function(f"card_{self.t.name}", dom.sort(), z3.IntSort())
        n = card(dom)
        tag = interp.fresh_id()
        w = z3.Const(f"w!len{tag}", self.t.ksort)
        x = z3.Const(f"x!len{tag}", self.t.ksort)
        interp.assume(n >= 0)
        interp.assume(z3.Implies(n > 0, z3.Select(dom, w)))
        try:
            interp.assume(z3.ForAll([x], z3.Implies(z3.Select(dom, x), n > 0), patterns=[z3.Select(dom, x)]))
        except z3.Z3Exception:
            interp.assume(z3.ForAll([x], z3.Implies(z3.Select(dom, x), n > 0)))
        return n

    def sym_iter(self, interp):
        return [k for k, _ in self.items(interp)]

    def items(self, interp):
        """bounded symbolic unrolling (see module docstring)"""
        return bounded_items(interp, self)

    def sym_getattr(self, interp, attr):
        h = heap_of(interp)
        if attr == "get":
            def get(it, key, default=None):
                if isinstance(key, OI) and default is key and self.t.vkind == "int":
                    # mapping.get(a, a) for an optional atom a (placeholder None): no fork on the None-ness;
                    # None is never a key, so the result is None exactly when a is
                    hh = heap_of(it)
                    kv = _int(key)
                    return OI(key.isnone, z3.If(hh.d_has(self.t, self.ref, kv), hh.d_get(self.t, self.ref, kv), kv))
                k = self.k(it, key)
                if k is not None and self.t.vkind == "int" and (it.state.get("generic_depth") or default is key) and _is_atomish(default):
                    # inside a summarised comprehension nothing may fork on the generic element: if-then-else term
                    hh = heap_of(it)
                    return z3.If(hh.d_has(self.t, self.ref, k), hh.d_get(self.t, self.ref, k), _int(default))
                if k is None or not it.decide(heap_of(it).d_has(self.t, self.ref, k)):
                    return default
                return self.wrap(it, heap_of(it).d_get(self.t, self.ref, k))
            return _native(get)
        if attr == "pop" and not self.proxy:
            def pop(it, key, *default):
                k = self.k(it, key)
                hh = heap_of(it)
                if k is None or not it.decide(hh.d_has(self.t, self.ref, k)):
                    if default:
                        return default[0]
                    raise PyRaise("KeyError")
                v = self.wrap(it, hh.d_get(self.t, self.ref, k))
                hh.d_del(self.t, self.ref, k)
                return v
            return _native(pop)
        if attr == "setdefault" and not self.proxy:
            def setdefault(it, key, default=None):
                k = self.k(it, key)
                hh = heap_of(it)
                if it.decide(hh.d_has(self.t, self.ref, k)):
                    return self.wrap(it, hh.d_get(self.t, self.ref, k))
                hh.d_set(self.t, self.ref, k, self.unwrap(it, default))
                return self.wrap(it, hh.d_get(self.t, self.ref, k))
            return _native(setdefault)
        if attr == "copy":
            def copy(it):
                hh = heap_of(it)
                r = hh.d_new(self.t)
                hh.d_assign(self.t, r, z3.Select(hh.dom[self.t.name], self.ref), z3.Select(hh.val[self.t.name], self.ref))
                return DictRef(self.t, r, allowed_descr=self.allowed_descr)
            return _native(copy)
        if attr == "keys":
            return _native(lambda it: DictKeys(self))
        if attr == "items":
            return _native(lambda it: DictItems(self))
        if attr == "values":
            return _native(lambda it: DictValues(self))
        if attr == "update" and not self.proxy:
            def update(it, other):
                hh = heap_of(it)
                if isinstance(other, DictRef) and other.t is self.t:
                    n = self.t.name
                    k = z3.Const(f"k!upd{it.fresh_id()}", self.t.ksort)
                    od, ov = z3.Select(hh.dom[n], other.ref), z3.Select(hh.val[n], other.ref)
                    sd, sv = z3.Select(hh.dom[n], self.ref), z3.Select(hh.val[n], self.ref)
                    nd = z3.Lambda([k], z3.Or(z3.Select(sd, k), z3.Select(od, k)))
                    nv = z3.Lambda([k], z3.If(z3.Select(od, k), z3.Select(ov, k), z3.Select(sv, k)))
                    hh.d_assign(self.t, self.ref, nd, nv)
                    return None
                if isinstance(other, dict):
                    for kk, vv in other.items():
                        self.sym_setitem(it, kk, vv)
                    return None
                raise OutOfSubset("dict.update argument")
            return _native(update)
        if attr == "__class__":
            return Builtin("dict", _b_dict)
        return NotHandled

    def without(self, interp, key):
        """copy without key (used when a ** mapping binds a named parameter)"""
        h = heap_of(interp)
        r = h.d_new(self.t)
        h.d_assign(self.t, r, z3.Store(z3.Select(h.dom[self.t.name], self.ref), to_key(key), False), z3.Select(h.val[self.t.name], self.ref))
        return DictRef(self.t, r)

    def with_items(self, interp, kwargs):
        h = heap_of(interp)
        r = h.d_new(self.t)
        h.d_assign(self.t, r, z3.Select(h.dom[self.t.name], self.ref), z3.Select(h.val[self.t.name], self.ref))
        d = DictRef(self.t, r)
        for kk, vv in kwargs.items():
            d.sym_setitem(interp, KeyStr(kk) if isinstance(kk, str) else kk, vv)
        return d


class DictKeys:
    def __init__(self, d):
        self.d = d

    def sym_contains(self, interp, x):
        return self.d.sym_contains(interp, x)

    def sym_iter(self, interp):
        return self.d.sym_iter(interp)

    def sym_len(self, interp):
        return self.d.sym_len(interp)

    def sym_to_set(self, interp):
        if self.d.t.ksort == z3.IntSort():
            h = heap_of(interp)
            r = h.s_new(S_INT)
            h.s_assign(S_INT, r, z3.Select(h.dom[self.d.t.name], self.d.ref))
            return SetRef(S_INT, r)
        if self.d.t.ksort == BondS:
            h = heap_of(interp)
            r = h.s_new(S_BOND)
            h.s_assign(S_BOND, r, z3.Select(h.dom[self.d.t.name], self.d.ref))
            return SetRef(S_BOND, r)
        raise OutOfSubset("set(keys)")


class DictItems:
    def __init__(self, d):
        self.d = d

    def sym_iter(self, interp):
        return self.d.items(interp)

    def sym_to_list(self, interp):
        h = heap_of(interp)
        return SymSeq(z3.Select(h.dom[self.d.t.name], self.d.ref), self.d.t.ksort, "items", self.d)


class DictValues:
    def __init__(self, d):
        self.d = d

    def sym_iter(self, interp):
        return [v for _, v in self.d.items(interp)]


class SetRef:
    def __init__(self, t: SetType, ref, frozen=False):
        self.t, self.ref, self.frozen = t, ref, frozen

    def e(self, interp, x):
        if self.t.esort == BondS:
            return as_bond(interp, x).t
        if isinstance(x, OI):
            if interp.decide(x.isnone):
                return None
            return _int(x)
        if x is None:
            return None
        return _int(x)

    def arr(self, interp):
        return z3.Select(heap_of(interp).mem[self.t.name], self.ref)

    def sym_contains(self, interp, x):
        if isinstance(x, OI) and self.t.esort == z3.IntSort():
            # an optional int: None is never a member (no fork on the None-ness)
            return And_(Not_(x.isnone), heap_of(interp).s_has(self.t, self.ref, _int(x)))
        e = self.e(interp, x)
        if e is None:
            return False
        return heap_of(interp).s_has(self.t, self.ref, e)

    def sym_is(self, interp, other):
        return isinstance(other, SetRef) and other.t is self.t and self.ref == other.ref

    def sym_truthy(self):
        raise OutOfSubset("truth value of a symbolic set")

    def sym_iter(self, interp):
        return bounded_elements(interp, self)

    def sym_to_set(self, interp):
        h = heap_of(interp)
        r = h.s_new(self.t)
        h.s_assign(self.t, r, self.arr(interp))
        return SetRef(self.t, r)

    def sym_to_frozenset(self, interp):
        h = heap_of(interp)
        r = h.s_new(self.t)
        h.s_assign(self.t, r, self.arr(interp))
        return SetRef(self.t, r, frozen=True)

    def sym_to_tuple(self, interp):
        return SymSeq(self.arr(interp), self.t.esort, "set")

    def sym_to_list(self, interp):
        return SymSeq(self.arr(interp), self.t.esort, "set")

    def _other_arr(self, interp, other):
        if isinstance(other, SetRef) and other.t is self.t:
            return other.arr(interp)
        if isinstance(other, DictKeys):
            return z3.Select(heap_of(interp).dom[other.d.t.name], other.d.ref)
        if isinstance(other, BondVal) and self.t.esort == z3.IntSort():
            x = z3.Int(f"x!ba{interp.fresh_id()}")
            return z3.Lambda([x], z3.Or(x == other.lo, x == other.hi))
        from .values import FSet

        if isinstance(other, (FSet, tuple, list)):
            items = other.elems if isinstance(other, FSet) else list(other)
            guards = other.guards if isinstance(other, FSet) else [True] * len(items)
            x = z3.Const(f"x!fa{interp.fresh_id()}", self.t.esort)
            terms = []
            for it_, g in zip(items, guards):
                e = self.e(interp, it_)
                if e is not None:
                    terms.append(z3.And(B(g), x == e))
            return z3.Lambda([x], z3.Or(*terms) if terms else z3.BoolVal(False))
        raise OutOfSubset(f"set operand {type(other).__name__}")

    def sym_getattr(self, interp, attr):
        def mutator(fn):
            def w(it, *a):
                if self.frozen:
                    raise PyRaise("AttributeError", attr)
                return fn(it, *a)
            return _native(w)

        if attr == "add":
            return mutator(lambda it, x: heap_of(it).s_put(self.t, self.ref, self.e(it, x), True))
        if attr == "discard":
            def discard(it, x):
                e = self.e(it, x)
                if e is not None:
                    heap_of(it).s_put(self.t, self.ref, e, False)
            return mutator(discard)
        if attr == "remove":
            def remove(it, x):
                e = self.e(it, x)
                if e is None or not it.decide(heap_of(it).s_has(self.t, self.ref, e)):
                    raise PyRaise("KeyError")
                heap_of(it).s_put(self.t, self.ref, e, False)
            return mutator(remove)
        if attr in ("update", "intersection_update", "difference_update"):
            def upd(it, *others):
                for o in others:
                    a, b = self.arr(it), self._other_arr(it, o)
                    x = z3.Const(f"x!su{it.fresh_id()}", self.t.esort)
                    sa, sb = z3.Select(a, x), z3.Select(b, x)
                    body = {"update": z3.Or(sa, sb), "intersection_update": z3.And(sa, sb), "difference_update": z3.And(sa, z3.Not(sb))}[attr]
                    heap_of(it).s_assign(self.t, self.ref, z3.Lambda([x], body))
            return mutator(upd)
        if attr in ("union", "intersection", "difference", "copy"):
            def binop(it, *others):
                new = self.sym_to_set(it)
                new.frozen = self.frozen
                tmp = SetRef(self.t, new.ref)
                for o in others:
                    tmp.sym_getattr(it, {"union": "update", "intersection": "intersection_update", "difference": "difference_update"}[attr])(it, o)
                return new
            return _native(binop)
        if attr in ("issuperset", "issubset"):
            def rel(it, other):
                if attr == "issuperset" and isinstance(other, BondVal) and self.t.esort == z3.IntSort():
                    return z3.And(z3.Select(self.arr(it), other.lo), z3.Select(self.arr(it), other.hi))
                a, b = self.arr(it), self._other_arr(it, other)
                x = z3.Const(f"x!sr{it.fresh_id()}", self.t.esort)
                if attr == "issuperset":
                    return z3.ForAll([x], z3.Implies(z3.Select(b, x), z3.Select(a, x)))
                return z3.ForAll([x], z3.Implies(z3.Select(a, x), z3.Select(b, x)))
            return _native(rel)
        if attr == "pop":
            def pop(it):
                x = it.fresh("pop", self.t.esort if self.t.esort != z3.IntSort() else None)
                if not it.decide(z3.Exists([x], z3.Select(self.arr(it), x))) if False else False:
                    pass
                raise OutOfSubset("set.pop on a symbolic set")
            return mutator(pop)
        return NotHandled

    def sym_binop(self, interp, op, other):
        m = {"BitOr": "union", "BitAnd": "intersection", "Sub": "difference"}.get(op)
        if m:
            return self.sym_getattr(interp, m)(interp, other)
        return NotHandled

    def sym_iop(self, interp, op, other):
        m = {"BitOr": "update", "BitAnd": "intersection_update", "Sub": "difference_update"}.get(op)
        if m and not self.frozen:
            self.sym_getattr(interp, m)(interp, other)
            return self
        return NotHandled

    def sym_eq(self, other):
        raise OutOfSubset("== on symbolic sets")


def note_ground(interp, t):
    """terms at which the representation invariant is instantiated for feasibility pruning"""
    if t.sort() == z3.IntSort():
        interp.state.setdefault("ground_ints", []).append(t)
    elif t.sort() == BondS:
        interp.state.setdefault("ground_bonds", []).append(t)


# ------------------------------------------------------------------------------------------------ bounded iteration
def bounded_items(interp, d: DictRef):
    """Assume the dict holds exactly j <= K keys k1..kj (pairwise distinct); fork on j."""
    h = heap_of(interp)
    if d.t.ksort == ChgS:
        # a ChangeDict has at most the three Change members as keys: exact enumeration, no bound
        out = []
        if interp.state.get("chg_one_slot"):
            # stated bound of the bounded mode: at most one change per ChangeDict
            interp.state["bounded_iteration"] = True
            has = [h.d_has(d.t, d.ref, CHG[n]) for n in ("FORMED", "FLEETING", "BROKEN")]
            interp.assume(z3.And(z3.Not(z3.And(has[0], has[1])), z3.Not(z3.And(has[0], has[2])), z3.Not(z3.And(has[1], has[2]))))
        for name in ("FORMED", "FLEETING", "BROKEN"):
            if interp.decide(h.d_has(d.t, d.ref, CHG[name])):
                out.append((ChgMember(name), d.wrap(interp, h.d_get(d.t, d.ref, CHG[name]))))
        return out
    K = interp.state.get("iter_bound", 2)
    interp.state["bounded_iteration"] = True
    dom = z3.Select(h.dom[d.t.name], d.ref)
    keys = []
    tag = interp.fresh_id()
    for j in range(K + 1):
        more = z3.Bool(f"more!{tag}_{j}")
        if j == K or not interp.decide(more):
            break
        k = z3.Const(f"it!{tag}_{j}", d.t.ksort)
        keys.append(k)
        note_ground(interp, k)
    x = z3.Const(f"x!it{tag}", d.t.ksort)
    body_ = z3.Select(dom, x) == z3.Or(*[x == k for k in keys]) if keys else z3.Not(z3.Select(dom, x))
    try:
        interp.assume(z3.ForAll([x], body_, patterns=[z3.Select(dom, x)]))
    except z3.Z3Exception:
        interp.assume(z3.ForAll([x], body_))
    if len(keys) > 1:
        interp.assume(z3.Distinct(*keys))
    for k in keys:
        interp.assume(z3.Select(dom, k))  # ground fact for feasibility pruning
    out = []
    for k in keys:
        kk = BondVal(k) if d.t.ksort == BondS else (ChgTerm(k) if d.t.ksort == ChgS else (KeyTerm(k) if d.t.ksort == KeyS else k))
        out.append((kk, LazyVal(d, k)))
    return [(kk, lv.force(interp)) for kk, lv in out]


class LazyVal:
    def __init__(self, d, k):
        self.d, self.k = d, k

    def force(self, interp):
        return self.d.wrap(interp, heap_of(interp).d_get(self.d.t, self.d.ref, self.k))


def bounded_elements(interp, s: SetRef):
    K = interp.state.get("iter_bound", 2)
    interp.state["bounded_iteration"] = True
    arr = s.arr(interp)
    tag = interp.fresh_id()
    elems = []
    for j in range(K + 1):
        more = z3.Bool(f"more!{tag}_{j}")
        if j == K or not interp.decide(more):
            break
        elems.append(z3.Const(f"el!{tag}_{j}", s.t.esort))
        note_ground(interp, elems[-1])
    x = z3.Const(f"x!el{tag}", s.t.esort)
    body_ = z3.Select(arr, x) == (z3.Or(*[x == e for e in elems]) if elems else z3.BoolVal(False))
    try:
        interp.assume(z3.ForAll([x], body_, patterns=[z3.Select(arr, x)]))
    except z3.Z3Exception:
        interp.assume(z3.ForAll([x], body_))
    if len(elems) > 1:
        interp.assume(z3.Distinct(*elems))
    for e in elems:
        interp.assume(z3.Select(arr, e))
    return [BondVal(e) if s.t.esort == BondS else e for e in elems]


# ------------------------------------------------------------------------------------------------ materialisation
def materialise_attr(interp, d: dict) -> DictRef:
    h = heap_of(interp)
    r = h.d_new(D_ATTR)
    ref = DictRef(D_ATTR, r)
    for k, v in d.items():
        ref.sym_setitem(interp, k, v)
    return ref


def materialise_set(interp, fs, t: SetType) -> SetRef:
    h = heap_of(interp)
    r = h.s_new(t)
    s = SetRef(t, r)
    for e, g in zip(fs.elems, fs.guards):
        if g is True:
            s.sym_getattr(interp, "add")(interp, e)
        else:
            raise OutOfSubset("guarded element")
    return s


# ------------------------------------------------------------------------------------------------ builtins
def _b_dict(it, x=None, **kw):
    h = heap_of(it)
    if x is None:
        return {}
    if isinstance(x, DictRef):
        return x.sym_getattr(it, "copy")(it)
    if isinstance(x, dict):
        return dict(x)
    raise OutOfSubset("dict(...)")


def _mk_dict(it, pairs):
    """dict display with a symbolic ** part:  {"atom_type": t, **attr}  /  {**attr, k: v}  -> attribute dict in
    the heap (later entries win, in display order); no lambda arrays so that the VCs stay in the decidable fragment"""
    star = [i for i, (k, v) in enumerate(pairs) if k == "**"]
    if not star:
        return NotHandled
    if len(star) > 1 or not isinstance(pairs[star[0]][1], DictRef) or pairs[star[0]][1].t is not D_ATTR:
        raise OutOfSubset("** of a non attribute mapping")
    h = heap_of(it)
    src = pairs[star[0]][1]
    sdom, sval = z3.Select(h.dom["attr"], src.ref), z3.Select(h.val["attr"], src.ref)
    dom, val = sdom, sval
    for k, v in pairs[: star[0]]:  # written before the ** part: the ** part wins on a clash
        kk, vv = to_key(k), to_val(v)
        if vv is None:
            raise OutOfSubset("attribute value")
        val = z3.Store(val, kk, z3.If(z3.Select(sdom, kk), z3.Select(sval, kk), vv))
        dom = z3.Store(dom, kk, True)
    for k, v in pairs[star[0] + 1:]:
        kk, vv = to_key(k), to_val(v)
        if vv is None:
            raise OutOfSubset("attribute value")
        val = z3.Store(val, kk, vv)
        dom = z3.Store(dom, kk, True)
    r = h.d_new(D_ATTR)
    h.d_assign(D_ATTR, r, dom, val)
    return DictRef(D_ATTR, r)


def _mk_kwargs(it, kwargs):
    return materialise_attr(it, {KeyStr(k): v for k, v in kwargs.items()})


def _b_frozenset_bond(it, x=None):
    """Bond / frozenset constructor"""
    from .interp import DEFAULT_BUILTINS
    from .values import FSet

    if x is None:
        return DEFAULT_BUILTINS["frozenset"].fn(it)
    if isinstance(x, (BondVal,)):
        return x
    if isinstance(x, SetRef):
        return x.sym_to_frozenset(it)
    if isinstance(x, FSet):
        if len(x.elems) in (1, 2) and all(g is True for g in x.guards) and all(_is_atomish(e) for e in x.elems):
            return as_bond(it, x)
        return DEFAULT_BUILTINS["frozenset"].fn(it, x)
    items = it.iterate(x)
    if len(items) in (1, 2) and all(_is_atomish(e) for e in items):
        return as_bond(it, items)
    return DEFAULT_BUILTINS["frozenset"].fn(it, items)


def _is_atomish(e):
    return isinstance(e, (int, OI)) and not isinstance(e, bool) or (is_sym(e) and z3.is_int(e))


def _b_mappingproxy(it, d):
    if isinstance(d, DictRef):
        return DictRef(d.t, d.ref, proxy=True, allowed_descr=d.allowed_descr)
    if isinstance(d, dict):
        return dict(d)
    raise OutOfSubset("MappingProxyType argument")


def _b_periodic_table():
    class PT:
        def sym_getitem(self, interp, key):
            v = to_val(key)
            if v is None:
                raise OutOfSubset("PERIODIC_TABLE key")
            if not interp.decide(pt_ok(v)):
                raise PyRaise("KeyError")
            return ValTerm(pt(v))

        def sym_contains(self, interp, key):
            return pt_ok(to_val(key))

    return PT()


def install(interp):
    interp.builtins["__mk_dict__"] = Builtin("__mk_dict__", _mk_dict)
    interp.builtins["__mk_kwargs__"] = Builtin("__mk_kwargs__", _mk_kwargs)
    interp.builtins["frozenset"] = Builtin("frozenset", _b_frozenset_bond)
    interp.builtins["dict"] = Builtin("dict", _b_dict)
    interp.builtins["types.MappingProxyType"] = Builtin("MappingProxyType", _b_mappingproxy)
    interp.builtins["MappingProxyType"] = Builtin("MappingProxyType", _b_mappingproxy)
    interp.builtins[("periodic_table.py", "PERIODIC_TABLE")] = _b_periodic_table()
    interp.builtins["stereomolgraph.periodic_table.PERIODIC_TABLE"] = interp.builtins[("periodic_table.py", "PERIODIC_TABLE")]
    interp.builtins[("graphs/crg.py", "Change")] = ChangeEnum()


# ------------------------------------------------------------------------------------------------ lazy sequences
class SymSeq:
    """tuple(...) / list(...) of a symbolic set or of dict items: a snapshot (independent of later mutation) whose
    elements are enumerated only when the code needs them (bounded unrolling) - an invariant-annotated loop uses
    the membership array directly"""

    def __init__(self, arr, esort, kind="set", source=None):
        self.arr, self.esort, self.kind, self.source = arr, esort, kind, source
        self._items = None

    def sym_iter(self, interp):
        if self._items is None:
            if self.kind == "set":
                tmp = SetRef(SET_TYPES["iset" if self.esort == z3.IntSort() else "bset"], None)
                tmp.arr = lambda it, a=self.arr: a
                self._items = bounded_elements(interp, tmp)
            else:
                self._items = self.source.items(interp)
        return list(self._items)

    def sym_len(self, interp):
        return len(self.sym_iter(interp))

    def sym_to_tuple(self, interp):
        return self  # immutable snapshot

    def sym_to_set(self, interp):
        if self.kind != "set":
            raise OutOfSubset("set(items snapshot)")
        t = SET_TYPES["iset" if self.esort == z3.IntSort() else "bset"]
        h = heap_of(interp)
        r = h.s_new(t)
        h.s_assign(t, r, self.arr)
        return SetRef(t, r)
