"""C12 - bounded contract on the RDKit conversion (vf/e3/rdkitio.py); RDKit itself is an assumed external dependency."""
import time

from ..core import Report
from ..e3 import rdkitio


def run(tier, seed):
    t0 = time.time()
    rep = Report("C12", tier, seed)
    rep.level = "exploration"
    rdkitio.run_c12(rep, tier, seed)
    rep.rule = "SMILES corpus with explicit hydrogens x renumberings / re-spellings / converter options; star graphs of every coordination class x ligand orders x parities x insertion orders; distinct_nontrivial = distinct base inputs"
    rep.assumptions = ["bounded: only the enumerated inputs are covered", "RDKit (C++): parsing, renumbering, random SMILES, chiral tags / permutation labels are an assumed dependency",
                       "atom identifiers are positive (RDKit atom-map number 0 means 'unset')"]
    return rep, t0
