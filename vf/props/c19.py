"""C19 - see vf/props/graphprop.py and DESIGN.md section 4."""
from . import graphprop


def run(tier, seed):
    return graphprop.run("C19", tier, seed)
