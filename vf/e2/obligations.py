"""E2 obligations for C07 and C20 (polynomial identities derived from the real source, decided by exact expansion)."""
from __future__ import annotations

import itertools
import time

import numpy as np
import sympy as sp
from sympy.combinatorics import Permutation

from ..core import DISCHARGED, ERROR, FAILED, Ob
from ..spec.groups import groups, spec_eq_concrete
from . import realalg as RA


def _ob(obs, name, ok, t, detail="", replay=None):
    obs.append(Ob(name, "proof", DISCHARGED if ok else FAILED, "sympy", time.time() - t, detail="" if ok else detail, replay_code=None if ok else replay))


def axis_rotations():
    c, s = sp.symbols("c s", real=True)
    Rz = sp.Matrix([[c, -s, 0], [s, c, 0], [0, 0, 1]])
    Rx = sp.Matrix([[1, 0, 0], [0, c, -s], [0, s, c]])
    Ry = sp.Matrix([[c, 0, s], [0, 1, 0], [-s, 0, c]])
    return [("z", Rz), ("x", Rx), ("y", Ry)], (c, s)


def mod_circle(e, cs):
    """reduce modulo c^2 + s^2 = 1"""
    c, s = cs
    e = sp.expand(e)
    return sp.expand(sp.rem(sp.Poly(e, s), sp.Poly(s**2 + c**2 - 1, s)).as_expr()) if e.has(s) else e


def handed_P(X):
    f, px = RA.load_function("coords.py", "handedness")
    r = f(X)
    if not isinstance(r, RA.Sign):
        raise ValueError("handedness does not return sign(...)")
    P = RA.numerator(r, px)
    if not RA.norm_free(P, px):
        raise ValueError("sign argument is not a polynomial over a positive denominator")
    return P


NUMERIC_REPLAY = """import numpy as np, itertools
from stereomolgraph.coords import handedness
rng = np.random.default_rng(0)
bad = None
for _ in range(200):
    X = rng.normal(size=(4, 3))
    h = int(handedness(X))
    for p in itertools.permutations(range(4)):
        sgn = round(float(np.linalg.det(np.eye(4)[list(p)])))
        if int(handedness(X[list(p)])) != sgn * h: bad = ('permutation', p)
    q = rng.normal(size=4); q /= np.linalg.norm(q); a, b, c, d = q
    R = np.array([[a*a+b*b-c*c-d*d, 2*(b*c-a*d), 2*(b*d+a*c)], [2*(b*c+a*d), a*a-b*b+c*c-d*d, 2*(c*d-a*b)], [2*(b*d-a*c), 2*(c*d+a*b), a*a-b*b-c*c+d*d]])
    if int(handedness(X @ R.T + rng.normal(size=3))) != h: bad = 'rigid motion'
    if int(handedness(-X)) != -h: bad = 'reflection'
print('first disagreement:', bad)
ok = bad is None
sys.exit(0 if ok else 1)
"""


def ob_handedness(rep, world, tier):
    obs = rep.obs
    base = "C07/coords.py:handedness"
    t = time.time()
    try:
        X = RA.coords(4)
        P = handed_P(X)
    except Exception as e:  # noqa
        obs.append(Ob(f"{base}/derive-sign-polynomial", "proof", ERROR, "sympy", detail=f"{type(e).__name__}: {e}"))
        return
    _ob(obs, f"{base}/derive-sign-polynomial", True, t)
    t = time.time()
    bad = None
    for p in itertools.permutations(range(4)):
        if sp.expand(handed_P(X[list(p)]) - Permutation(list(p)).signature() * P) != 0:
            bad = p
            break
    _ob(obs, f"{base}/alternating-under-the-24-ligand-permutations", bad is None, t, f"P(pi X) != sgn(pi) P(X) for pi = {bad}", NUMERIC_REPLAY)
    t = time.time()
    tt = sp.symbols("tx ty tz", real=True)
    _ob(obs, f"{base}/translation-invariant", sp.expand(handed_P(RA.move(X, None, tt)) - P) == 0, t, "P(X + t) != P(X)", NUMERIC_REPLAY)
    rots, cs = axis_rotations()
    for nm, R in rots:
        t = time.time()
        _ob(obs, f"{base}/invariant-under-rotation-about-{nm}", mod_circle(handed_P(RA.move(X, R)) - P, cs) == 0, t, f"P(R_{nm} X) != P(X) modulo c^2+s^2=1", NUMERIC_REPLAY)
    if tier != "quick":
        t = time.time()
        R, q2 = RA.quaternion_matrix()
        _ob(obs, f"{base}/invariant-under-all-of-SO3(quaternion-parametrisation)", sp.expand(handed_P(RA.move(X, R, tt)) - q2**3 * P) == 0, t, "P(R(q) X + t) != |q|^6 P(X)", NUMERIC_REPLAY)
    t = time.time()
    _ob(obs, f"{base}/negated-by-reflection", sp.expand(handed_P(-X) + P) == 0, t, "P(-X) != -P(X)", NUMERIC_REPLAY)


class SymInt:
    """int(np.sign(e)) under the general-position assumption (never 0), with an ASSUMED value for branching"""

    def __init__(self, expr, assumed):
        self.expr, self.assumed = expr, assumed

    def __eq__(self, o):
        return self.assumed == o

    def __ne__(self, o):
        return self.assumed != o

    def __hash__(self):
        return hash(self.assumed)


class Recorder:
    def __init__(self, name):
        self.name = name

    def __call__(self, atoms, parity=None):
        return (self.name, tuple(atoms), parity)


def run_perception(fname, atoms, X, assumed):
    """execute the real perception function; every sign decision takes the assumed value and is recorded"""
    signs = []

    def my_int(x):
        if isinstance(x, RA.Sign):
            s = SymInt(x.expr, assumed)
            signs.append(s)
            return s
        return int(x)

    g = {"int": my_int, "are_planar": lambda *_a, **_k: True, "len": len, "tuple": tuple, "ValueError": ValueError}
    for c in ("Tetrahedral", "PlanarBond", "SquarePlanar", "TrigonalBipyramidal", "Octahedral"):
        g[c] = Recorder(c)
    if fname == "_tetrahedral_from_coords":
        hf, hpx = RA.load_function("coords.py", "handedness")
        g["handedness"] = hf
    f, px = RA.load_function("xyz2graph.py", fname, g)
    if fname == "_tetrahedral_from_coords":
        px = hpx
    res = f(atoms, X)
    return res, signs, px


def ob_tetrahedral(rep, world, tier):
    obs = rep.obs
    base = "C07/xyz2graph.py:_tetrahedral_from_coords"
    t = time.time()
    atoms = (50, 11, 12, 13, 14)
    X = RA.coords(5)
    try:
        results = {}
        for assumed in (1, -1):
            res, signs, px = run_perception("_tetrahedral_from_coords", atoms, X, assumed)
            results[assumed] = (res, RA.numerator(RA.Sign(signs[0].expr), px))
        P_lig = handed_P(X[1:5])
    except Exception as e:  # noqa
        obs.append(Ob(f"{base}/symbolic-execution", "proof", ERROR, "sympy", detail=f"{type(e).__name__}: {e}"))
        return
    ok = all(r[0] == "Tetrahedral" and r[1] == atoms and isinstance(r[2], SymInt) and r[2].assumed == a and sp.expand(P - P_lig) == 0 for a, (r, P) in results.items())
    _ob(obs, f"{base}/descriptor-is-Tetrahedral(atoms, handedness(ligand-coordinates))", ok, t, f"result {results}")
    # lemma: for every permutation of the ligands the perceived descriptors are EQUAL descriptors (oracle group), a reflection gives the inverted one
    t = time.time()
    bad = None
    for p in itertools.permutations(range(4)):
        perm_atoms = (atoms[0],) + tuple(atoms[1 + i] for i in p)
        sg = Permutation(list(p)).signature()
        for s in (1, -1):
            if not spec_eq_concrete("Tetrahedral", atoms, s, perm_atoms, sg * s):
                bad = (p, s)
    _ob(obs, f"{base}/lemma:ligand-order-independent(alternation + oracle group)", bad is None, t, f"{bad}")


def ob_planar_bond(rep, world, tier):
    obs = rep.obs
    base = "C07/xyz2graph.py:_planar_bond_from_coords"
    atoms = (20, 21, 22, 23, 24, 25)
    X = RA.coords(6)
    t = time.time()
    try:
        out = {}
        for assumed in (1, -1):
            res, signs, px = run_perception("_planar_bond_from_coords", atoms, X, assumed)
            out[assumed] = (res, RA.numerator(RA.Sign(signs[0].expr), px))
        Q = out[1][1]
    except Exception as e:  # noqa
        obs.append(Ob(f"{base}/symbolic-execution", "proof", ERROR, "sympy", detail=f"{type(e).__name__}: {e}"))
        return
    expq = sum((X[0][k] - X[1][k]) * (X[4][k] - X[5][k]) for k in range(3))
    ok = sp.expand(Q - expq) == 0 and sp.expand(out[-1][1] - expq) == 0 and out[1][0] == ("PlanarBond", atoms, 0) and out[-1][0] == ("PlanarBond", (21, 20, 22, 23, 24, 25), 0)
    _ob(obs, f"{base}/descriptor-from-sign-of-(x0-x1).(x4-x5)", ok, t, f"{out}")

    def Qof(Y):
        r, signs, px = run_perception("_planar_bond_from_coords", atoms, Y, 1)
        return RA.numerator(RA.Sign(signs[0].expr), px)

    t = time.time()
    tt = sp.symbols("tx ty tz", real=True)
    _ob(obs, f"{base}/translation-invariant", sp.expand(Qof(RA.move(X, None, tt)) - Q) == 0, t)
    rots, cs = axis_rotations()
    for nm, R in rots:
        t = time.time()
        _ob(obs, f"{base}/invariant-under-rotation-about-{nm}", mod_circle(Qof(RA.move(X, R)) - Q, cs) == 0, t)
    t = time.time()
    _ob(obs, f"{base}/unchanged-by-reflection(achiral)", sp.expand(Qof(-X) - Q) == 0, t)
    # re-ordering the six atoms by any re-spelling (substituents swapped on an end and/or ends exchanged): the perceived descriptor is an EQUAL one
    t = time.time()
    bad = None
    respell = [p for p in itertools.permutations(range(6)) if {p[2], p[3]} == {2, 3} and ({p[0], p[1]}, {p[4], p[5]}) in (({0, 1}, {4, 5}), ({4, 5}, {0, 1}))
               and ((p[2] == 2) == ({p[0], p[1]} == {0, 1}))]
    for p in respell:
        Y = X[list(p)]
        at = tuple(atoms[i] for i in p)
        Qp = Qof(Y)
        ratio = sp.simplify(Qp / Q)
        if ratio not in (1, -1):
            bad = (p, "sign relation not constant")
            break
        for s in (1, -1):
            r1 = atoms if s == 1 else (21, 20, 22, 23, 24, 25)
            sp_ = s * int(ratio)
            r2 = at if sp_ == 1 else (at[1], at[0], at[2], at[3], at[4], at[5])
            if not spec_eq_concrete("PlanarBond", r1, 0, r2, 0):
                bad = (p, s)
    _ob(obs, f"{base}/lemma:atom-order-independent({len(respell)}-respellings x sign, oracle group)", bad is None, t, f"{bad}")


def ob_pairwise(rep, world, tier):
    obs = rep.obs
    base = "C20/coords.py:pairwise_distances"
    t = time.time()
    try:
        f, px = RA.load_function("coords.py", "pairwise_distances")
        n = 4
        X = RA.coords(n)
        D = f(X.copy())
        D2 = np.vectorize(lambda e: sp.expand(e**2), otypes=[object])(D)
    except Exception as e:  # noqa
        obs.append(Ob(f"{base}/symbolic-execution", "proof", ERROR, "sympy", detail=f"{type(e).__name__}: {e}"))
        return
    exp = [[sp.expand(sum((X[i][k] - X[j][k]) ** 2 for k in range(3))) for j in range(n)] for i in range(n)]
    _ob(obs, f"{base}/entries-are-euclidean-distances", D.shape == (n, n) and all(sp.expand(D2[i, j] - exp[i][j]) == 0 for i in range(n) for j in range(n)), t)
    _ob(obs, f"{base}/symmetric-with-zero-diagonal", all(sp.expand(D2[i, j] - D2[j, i]) == 0 for i in range(n) for j in range(n)) and all(D2[i, i] == 0 for i in range(n)), t)

    def D2of(Y):
        g, _ = RA.load_function("coords.py", "pairwise_distances")
        return np.vectorize(lambda e: sp.expand(e**2), otypes=[object])(g(Y.copy()))

    t = time.time()
    tt = sp.symbols("tx ty tz", real=True)
    Dt = D2of(RA.move(X, None, tt))
    _ob(obs, f"{base}/translation-invariant", all(sp.expand(Dt[i, j] - D2[i, j]) == 0 for i in range(n) for j in range(n)), t)
    rots, cs = axis_rotations()
    for nm, R in rots:
        t = time.time()
        Dr = D2of(RA.move(X, R))
        _ob(obs, f"{base}/invariant-under-rotation-about-{nm}", all(mod_circle(Dr[i, j] - D2[i, j], cs) == 0 for i in range(n) for j in range(n)), t)
    t = time.time()
    Dm = D2of(-X)
    _ob(obs, f"{base}/invariant-under-reflection", all(sp.expand(Dm[i, j] - D2[i, j]) == 0 for i in range(n) for j in range(n)), t)
    t = time.time()
    bad = None
    for p in itertools.permutations(range(n)):
        Dp = D2of(X[list(p)])
        if any(sp.expand(Dp[i, j] - D2[p[i], p[j]]) != 0 for i in range(n) for j in range(n)):
            bad = p
    _ob(obs, f"{base}/equivariant-under-atom-permutations", bad is None, t, f"{bad}")


def ob_cutoff_table(rep, world, tier):
    """_DefaultFuncDict / default_connectivity_cutoff: symmetric, 1.2 (r_i + r_j), zero diagonal - exhaustive over all
    118 x 118 element pairs (the domain is finite), executed on the real classes"""
    obs = rep.obs
    t = time.time()
    from stereomolgraph.coords import BondsFromDistance
    from stereomolgraph.periodic_table import COVALENT_RADII

    bad, replay = None, None
    for order in (list(range(1, 119)), list(range(118, 0, -1))):
        try:
            b = BondsFromDistance()
            arr = b.connectivity_cutoff.array(order)
        except Exception as e:  # noqa  (the table must exist for every element: an exception is the violation)
            bad = (f"array({order[:3]}...) raised {type(e).__name__}: {e}",)
            replay = (f"from stereomolgraph.coords import BondsFromDistance\ntry:\n    BondsFromDistance().connectivity_cutoff.array({order!r})\n    ok = True\n"
                      "except Exception as e:\n    print(type(e).__name__, e)\n    ok = False\n"
                      "print('property holds on this case' if ok else 'VIOLATION reproduced')\nsys.exit(0 if ok else 1)\n")
            continue
        for i, ei in enumerate(order):
            for j, ej in enumerate(order):
                exp = 0.0 if i == j else 1.2 * (COVALENT_RADII[ei] + COVALENT_RADII[ej])
                if abs(arr[i][j] - exp) > 1e-12 or arr[i][j] != arr[j][i]:
                    bad = (ei, ej, arr[i][j], exp)
                    replay = (f"from stereomolgraph.coords import BondsFromDistance\nfrom stereomolgraph.periodic_table import COVALENT_RADII\n"
                              f"arr = BondsFromDistance().connectivity_cutoff.array([{ei}, {ej}])\nexp = 1.2 * (COVALENT_RADII[{ei}] + COVALENT_RADII[{ej}])\nprint(arr, exp)\n"
                              f"ok = {ei} == {ej} or (abs(arr[0][1] - exp) <= 1e-12 and arr[0][1] == arr[1][0] and arr[0][0] == 0)\n"
                              "print('property holds on this case' if ok else 'VIOLATION reproduced')\nsys.exit(0 if ok else 1)\n")
    obs.append(Ob("C20/coords.py:_DefaultFuncDict.array/symmetric-cutoff-1.2(r_i+r_j)-zero-diagonal(all 118x118 pairs, both fill orders)", "proof",
                  DISCHARGED if bad is None else FAILED, "enum", time.time() - t, detail=f"{bad}", replay_code=replay))
