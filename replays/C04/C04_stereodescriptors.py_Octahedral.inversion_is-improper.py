"""Replay of a failed obligation on the real code.  Run with /verif/.venv/bin/python.
Exits 1 when the violation reproduces on the tree under /repo, 0 otherwise.
obligation: C04/stereodescriptors.py:Octahedral.inversion/is-improper
inversion=(0, 1, 2, 3, 4, 6, 5) is not an improper symmetry / class chirality mismatch
"""
import sys
sys.path.insert(0, '/repo/src')
from stereomolgraph.stereodescriptors import Octahedral
a = Octahedral((10, 11, 12, 13, 14, 15, 16), 1); b = Octahedral((10, 11, 12, 13, 14, 16, 15), -1)
expected = False   # spatial identity according to the oracle group of the idealised figure
try:
    got = (a == b)
except Exception as e:
    print('raised', type(e).__name__, e); sys.exit(1)
print(a, '==', b, '->', got, 'expected', expected)
sys.exit(0 if got is expected else 1)
