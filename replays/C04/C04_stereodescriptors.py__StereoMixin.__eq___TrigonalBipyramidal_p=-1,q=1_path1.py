"""Replay of a failed obligation on the real code.  Run with /verif/.venv/bin/python.
Exits 1 when the violation reproduces on the tree under /repo, 0 otherwise.
obligation: C04/stereodescriptors.py:_StereoMixin.__eq__/TrigonalBipyramidal/p=-1,q=1#path1
result differs from spatial identity: TrigonalBipyramidal((2, None, 0, None, None, 1),-1) == TrigonalBipyramidal((2, None, 0, None, None, 1),1); spec says True
"""
import sys
sys.path.insert(0, '/repo/src')
from stereomolgraph.stereodescriptors import TrigonalBipyramidal
a = TrigonalBipyramidal((2, None, 0, None, None, 1), -1); b = TrigonalBipyramidal((2, None, 0, None, None, 1), 1)
expected = True   # spatial identity according to the oracle group of the idealised figure
try:
    got = (a == b)
except Exception as e:
    print('raised', type(e).__name__, e); sys.exit(1)
print(a, '==', b, '->', got, 'expected', expected)
sys.exit(0 if got is expected else 1)
