"""Symbolic pre-states of the four graph classes, representation invariant wf (DESIGN 3.2, after the
container fixes: all tables are plain dicts, exactly one neighbour-set entry per atom), abstract views,
frame predicates, and the heap-aware builtins (deepcopy, ChangeDict, field coercion)."""
from __future__ import annotations

import z3

from . import heap as H
from .heap import (BondS, ChgS, D_ACHG, D_ASTEREO, D_ATOMS, D_ATTR, D_BCHG, D_BONDS, D_BSTEREO, D_CHG, D_NBRS, DescrS, DictRef, Heap, K_ATOM_TYPE,
                   K_REACTION, ODescrS, OIntS, S_INT, SetRef, ValS, heap_of, mkbond)
from .interp import Builtin, ClassRef, Interp, NotHandled, Obj, OutOfSubset, PyRaise, _native
from .values import FSet

FIELD_TYPES = {"_atom_attrs": D_ATOMS, "_neighbors": D_NBRS, "_bond_attrs": D_BONDS, "_atom_stereo": D_ASTEREO, "_bond_stereo": D_BSTEREO,
               "_atom_stereo_change": D_ACHG, "_bond_stereo_change": D_BCHG}
CLASS_FIELDS = {
    "MolGraph": ("_atom_attrs", "_neighbors", "_bond_attrs"),
    "CondensedReactionGraph": ("_atom_attrs", "_neighbors", "_bond_attrs"),
    "StereoMolGraph": ("_atom_attrs", "_neighbors", "_bond_attrs", "_atom_stereo", "_bond_stereo"),
    "StereoCondensedReactionGraph": ("_atom_attrs", "_neighbors", "_bond_attrs", "_atom_stereo", "_bond_stereo", "_atom_stereo_change", "_bond_stereo_change"),
}
GRAPH_CLASSES = tuple(CLASS_FIELDS)
KIND = {"MG": "MolGraph", "SMG": "StereoMolGraph", "CRG": "CondensedReactionGraph", "SCRG": "StereoCondensedReactionGraph"}
card = {t: z3.Function(f"card_{t}", z3.ArraySort(s, z3.BoolSort()), z3.IntSort()) for t, s in (("int", z3.IntSort()), ("bond", BondS))}


class View:
    """abstract view of a graph object in a heap (all functions return z3 terms)"""

    def __init__(self, h: Heap, o: Obj):
        self.h, self.o = h, o
        f = o.fields
        self.AT, self.NT, self.BT = f["_atom_attrs"].ref, f["_neighbors"].ref, f["_bond_attrs"].ref
        self.AS = f["_atom_stereo"].ref if "_atom_stereo" in f else None
        self.BS = f["_bond_stereo"].ref if "_bond_stereo" in f else None
        self.AC = f["_atom_stereo_change"].ref if "_atom_stereo_change" in f else None
        self.BC = f["_bond_stereo_change"].ref if "_bond_stereo_change" in f else None

    # atoms
    def atom(self, x):
        return self.h.d_has(D_ATOMS, self.AT, x)

    def aref(self, x):
        return self.h.d_get(D_ATOMS, self.AT, x)

    def attr_has(self, x, k):
        return self.h.d_has(D_ATTR, self.aref(x), k)

    def attr_val(self, x, k):
        return self.h.d_get(D_ATTR, self.aref(x), k)

    # bonds
    def bond(self, b):
        return self.h.d_has(D_BONDS, self.BT, b)

    def bref(self, b):
        return self.h.d_get(D_BONDS, self.BT, b)

    def battr_has(self, b, k):
        return self.h.d_has(D_ATTR, self.bref(b), k)

    def battr_val(self, b, k):
        return self.h.d_get(D_ATTR, self.bref(b), k)

    # neighbours
    def nkey(self, x):
        return self.h.d_has(D_NBRS, self.NT, x)

    def nref(self, x):
        return self.h.d_get(D_NBRS, self.NT, x)

    def nbr(self, x, y):
        return self.h.s_has(S_INT, self.nref(x), y)

    # stereo
    def as_has(self, x):
        return self.h.d_has(D_ASTEREO, self.AS, x)

    def as_val(self, x):
        return self.h.d_get(D_ASTEREO, self.AS, x)

    def bs_has(self, b):
        return self.h.d_has(D_BSTEREO, self.BS, b)

    def bs_val(self, b):
        return self.h.d_get(D_BSTEREO, self.BS, b)

    def ac_has(self, x):
        return self.h.d_has(D_ACHG, self.AC, x)

    def ac_ref(self, x):
        return self.h.d_get(D_ACHG, self.AC, x)

    def ac_slot_has(self, x, c):
        return self.h.d_has(D_CHG, self.ac_ref(x), c)

    def ac_slot(self, x, c):
        return self.h.d_get(D_CHG, self.ac_ref(x), c)

    def bc_has(self, b):
        return self.h.d_has(D_BCHG, self.BC, b)

    def bc_ref(self, b):
        return self.h.d_get(D_BCHG, self.BC, b)

    def bc_slot_has(self, b, c):
        return self.h.d_has(D_CHG, self.bc_ref(b), c)

    def bc_slot(self, b, c):
        return self.h.d_get(D_CHG, self.bc_ref(b), c)


# ------------------------------------------------------------------------------------------------ descriptor helpers
def d_slot(d, i):
    return getattr(DescrS, f"a{i}")(d)


def d_len(d):
    c = DescrS.dcls(d)
    return z3.If(z3.Or(c == H.CLS["Tetrahedral"], c == H.CLS["SquarePlanar"]), 5, z3.If(c == H.CLS["Octahedral"], 7, 6))


def d_is_atom(d):
    c = DescrS.dcls(d)
    return z3.Or(*[c == H.CLS[n] for n in H.ATOM_DESCR])


def d_mentions(d, x):
    return z3.Or(*[z3.And(i < d_len(d), d_slot(d, i) == OIntS.OSome(x)) for i in range(7)])


def d_wf(d):
    """slots beyond the class length are ONone; parity in {None, -1, 0, 1}"""
    p = DescrS.par(d)
    return z3.And(*[z3.Implies(i >= d_len(d), d_slot(d, i) == OIntS.ONone) for i in range(5, 7)],
                  z3.Or(p == OIntS.ONone, p == OIntS.OSome(1), p == OIntS.OSome(-1), p == OIntS.OSome(0)))


def d_atom_centred(d, x):
    return z3.And(d_is_atom(d), d_slot(d, 0) == OIntS.OSome(x), d_wf(d))


def d_bond_centred(d, b):
    s2, s3 = d_slot(d, 2), d_slot(d, 3)
    return z3.And(z3.Not(d_is_atom(d)), OIntS.is_OSome(s2), OIntS.is_OSome(s3), mkbond(OIntS.ov(s2), OIntS.ov(s3)) == b, BondS.lo(b) < BondS.hi(b), d_wf(d))


def d_bond_centred_core(d, b):
    s2, s3 = d_slot(d, 2), d_slot(d, 3)
    return z3.And(z3.Not(d_is_atom(d)), OIntS.is_OSome(s2), OIntS.is_OSome(s3), mkbond(OIntS.ov(s2), OIntS.ov(s3)) == b, BondS.lo(b) < BondS.hi(b))


def d_invert(d):
    """spec of invert(): parity sign flipped, identity for parity 0 / None"""
    p = DescrS.par(d)
    newp = z3.If(p == OIntS.OSome(1), OIntS.OSome(-1), z3.If(p == OIntS.OSome(-1), OIntS.OSome(1), p))
    return DescrS.mkd(DescrS.dcls(d), *[d_slot(d, i) for i in range(7)], newp)


def d_relabel(d, rho):
    """spec of renaming: every non-placeholder atom a becomes rho(a)"""
    def m(s):
        return z3.If(OIntS.is_OSome(s), OIntS.OSome(rho(OIntS.ov(s))), s)
    return DescrS.mkd(DescrS.dcls(d), *[m(d_slot(d, i)) for i in range(7)], DescrS.par(d))


# ------------------------------------------------------------------------------------------------ wf
def wf_raw(v: View, cname, tag="", bound=None):
    """list of (name, bound variables, body, patterns) - the representation invariant, clause by clause"""
    h = v.h
    x, y = z3.Ints(f"wx{tag} wy{tag}")
    b = z3.Const(f"wb{tag}", BondS)
    b2 = z3.Const(f"wb2{tag}", BondS)
    k = z3.Const(f"wk{tag}", H.KeyS)
    c = z3.Const(f"wc{tag}", ChgS)
    top = h.A0 if bound is None else bound
    old = lambda r: z3.And(r >= 0, r < top)  # noqa
    cl = []
    def FA(vs, body, patterns=None):
        return (list(vs), body, patterns)

    refs = [v.AT, v.NT, v.BT] + [r for r in (v.AS, v.BS, v.AC, v.BC) if r is not None]
    cl.append(("W0-table-refs-allocated", ([], z3.And(*[old(r) for r in refs]), None)))
    cl.append(("W1-atoms-have-an-element", FA([x], z3.Implies(v.atom(x), z3.And(old(v.aref(x)), v.attr_has(x, K_ATOM_TYPE), H.is_elem(v.attr_val(x, K_ATOM_TYPE)))),
                                                     patterns=[v.atom(x)])))
    cl.append(("W6-atom-attribute-dicts-unshared", FA([x, y], z3.Implies(z3.And(v.atom(x), v.atom(y), x != y), v.aref(x) != v.aref(y)),
                                                             patterns=[z3.MultiPattern(v.aref(x), v.aref(y))])))
    cl.append(("W2-bonds-join-two-distinct-atoms", FA([b], z3.Implies(v.bond(b), z3.And(BondS.lo(b) < BondS.hi(b), v.atom(BondS.lo(b)), v.atom(BondS.hi(b)), old(v.bref(b)))),
                                                            patterns=[v.bond(b)])))
    cl.append(("W6-bond-attribute-dicts-unshared", FA([b, b2], z3.Implies(z3.And(v.bond(b), v.bond(b2), b != b2), v.bref(b) != v.bref(b2)),
                                                             patterns=[z3.MultiPattern(v.bref(b), v.bref(b2))])))
    cl.append(("W6-atom-and-bond-attribute-dicts-disjoint", FA([x, b], z3.Implies(z3.And(v.atom(x), v.bond(b)), v.aref(x) != v.bref(b)),
                                                                      patterns=[z3.MultiPattern(v.aref(x), v.bref(b))])))
    cl.append(("W4-one-neighbour-entry-per-atom", FA([x], v.nkey(x) == v.atom(x), patterns=[v.nkey(x)])))
    cl.append(("W4b-atoms-have-neighbour-entry", FA([x], z3.Implies(v.atom(x), z3.And(v.nkey(x), old(v.nref(x)))), patterns=[v.atom(x)])))
    cl.append(("W6-neighbour-sets-unshared", FA([x, y], z3.Implies(z3.And(v.atom(x), v.atom(y), x != y), v.nref(x) != v.nref(y)),
                                                       patterns=[z3.MultiPattern(v.nref(x), v.nref(y))])))
    cl.append(("W3-neighbour-sets-mirror-bonds", FA([x, y], z3.Implies(v.atom(x), v.nbr(x, y) == z3.And(x != y, v.bond(mkbond(x, y)))),
                                                           patterns=[v.nbr(x, y)])))
    if cname in ("CondensedReactionGraph", "StereoCondensedReactionGraph"):
        cl.append(("W9-reaction-labels-are-changes", FA([b], z3.Implies(z3.And(v.bond(b), v.battr_has(b, K_REACTION)), ValS.is_VChg(v.battr_val(b, K_REACTION))),
                                                               patterns=[v.bond(b)])))
    if v.AS is not None:
        cl.append(("W7-atom-descriptors-stored-under-their-centre", FA([x], z3.Implies(v.as_has(x), z3.And(d_is_atom(v.as_val(x)), d_slot(v.as_val(x), 0) == OIntS.OSome(x))), patterns=[v.as_has(x)])))
        cl.append(("W7-atom-descriptors-well-formed", FA([x], z3.Implies(v.as_has(x), d_wf(v.as_val(x))), patterns=[v.as_has(x)])))
        cl.append(("W7-atom-descriptor-keys-are-atoms", FA([x], z3.Implies(v.as_has(x), v.atom(x)), patterns=[v.as_has(x)])))
        cl.append(("W8-bond-descriptor-keys-join-atoms", FA([b], z3.Implies(v.bs_has(b), z3.And(v.atom(BondS.lo(b)), v.atom(BondS.hi(b)))), patterns=[v.bs_has(b)])))
        cl.append(("W8-bond-descriptors-stored-under-their-bond", FA([b], z3.Implies(v.bs_has(b), d_bond_centred_core(v.bs_val(b), b)), patterns=[v.bs_has(b)])))
        cl.append(("W8-bond-descriptors-well-formed", FA([b], z3.Implies(v.bs_has(b), d_wf(v.bs_val(b))), patterns=[v.bs_has(b)])))
    if v.AC is not None:
        cl.append(("W10-atom-change-keys-are-atoms", FA([x], z3.Implies(v.ac_has(x), v.atom(x)), patterns=[v.ac_has(x)])))
        cl.append(("W11-bond-change-keys-join-atoms", FA([b], z3.Implies(v.bc_has(b), z3.And(v.atom(BondS.lo(b)), v.atom(BondS.hi(b)))), patterns=[v.bc_has(b)])))
        cl.append(("W10-atom-change-tables", FA([x], z3.Implies(v.ac_has(x), old(v.ac_ref(x))), patterns=[v.ac_has(x)])))
        cl.append(("W10-atom-change-dicts-unshared", FA([x, y], z3.Implies(z3.And(v.ac_has(x), v.ac_has(y), x != y), v.ac_ref(x) != v.ac_ref(y)),
                                                               patterns=[z3.MultiPattern(v.ac_ref(x), v.ac_ref(y))])))
        hyp = z3.And(v.ac_has(x), v.ac_slot_has(x, c))
        dsl = ODescrS.dd(v.ac_slot(x, c))
        cl.append(("W10-atom-changes-are-descriptors", FA([x, c], z3.Implies(hyp, ODescrS.is_DSome(v.ac_slot(x, c))), patterns=[v.ac_slot_has(x, c)])))
        cl.append(("W10-atom-changes-centred", FA([x, c], z3.Implies(hyp, z3.And(d_is_atom(dsl), d_slot(dsl, 0) == OIntS.OSome(x))), patterns=[v.ac_slot_has(x, c)])))
        cl.append(("W10-atom-changes-well-formed", FA([x, c], z3.Implies(hyp, d_wf(dsl)), patterns=[v.ac_slot_has(x, c)])))
        cl.append(("W11-bond-change-tables", FA([b], z3.Implies(v.bc_has(b), old(v.bc_ref(b))), patterns=[v.bc_has(b)])))
        cl.append(("W11-bond-change-dicts-unshared", FA([b, b2], z3.Implies(z3.And(v.bc_has(b), v.bc_has(b2), b != b2), v.bc_ref(b) != v.bc_ref(b2)),
                                                               patterns=[z3.MultiPattern(v.bc_ref(b), v.bc_ref(b2))])))
        cl.append(("W11-atom-and-bond-change-dicts-disjoint", FA([x, b], z3.Implies(z3.And(v.ac_has(x), v.bc_has(b)), v.ac_ref(x) != v.bc_ref(b)),
                                                                        patterns=[z3.MultiPattern(v.ac_ref(x), v.bc_ref(b))])))
        hyp = z3.And(v.bc_has(b), v.bc_slot_has(b, c))
        dsl = ODescrS.dd(v.bc_slot(b, c))
        cl.append(("W11-bond-changes-are-descriptors", FA([b, c], z3.Implies(hyp, ODescrS.is_DSome(v.bc_slot(b, c))), patterns=[v.bc_slot_has(b, c)])))
        cl.append(("W11-bond-changes-centred", FA([b, c], z3.Implies(hyp, d_bond_centred_core(dsl, b)), patterns=[v.bc_slot_has(b, c)])))
        cl.append(("W11-bond-changes-well-formed", FA([b, c], z3.Implies(hyp, d_wf(dsl)), patterns=[v.bc_slot_has(b, c)])))
        # W12: an entry of a change table holds at least one descriptor (enantiomer() / reverse_reaction() rebuild every entry
        # through set_*_stereo_change(), which rejects a request without descriptors)
        cl.append(("W12-atom-change-entries-non-empty", FA([x], z3.Implies(v.ac_has(x), z3.Or(*[v.ac_slot_has(x, H.CHG[n]) for n in ("BROKEN", "FLEETING", "FORMED")])),
                                                             patterns=[v.ac_has(x)])))
        cl.append(("W12-bond-change-entries-non-empty", FA([b], z3.Implies(v.bc_has(b), z3.Or(*[v.bc_slot_has(b, H.CHG[n]) for n in ("BROKEN", "FLEETING", "FORMED")])),
                                                             patterns=[v.bc_has(b)])))
    return [(n, c[0], c[1], c[2]) for n, c in cl]



def wf_clauses(v: View, cname, tag="", use_patterns=True, bound=None):
    """closed formulas"""
    out = []
    for name, vs, body, pats in wf_raw(v, cname, tag, bound):
        if not vs:
            out.append((name, body))
        elif use_patterns and pats:
            out.append((name, z3.ForAll(vs, body, patterns=pats)))
        else:
            out.append((name, z3.ForAll(vs, body)))
    return out


def wf_instances(v: View, cname, ints, bonds, chgs=None, bound=None, limit=4000, must=None):
    """ground instances of the invariant at the given terms (sound: instances of assumed universals);
    with `must` only the combinations that use at least one of those terms"""
    import itertools

    chgs = chgs if chgs is not None else [H.FORMED, H.FLEETING, H.BROKEN]
    must_ids = None if must is None else {t.get_id() for t in must}
    out = []
    for name, vs, body, pats in wf_raw(v, cname, "i", bound):
        if not vs:
            continue
        doms = []
        for var in vs:
            so = var.sort()
            doms.append(ints if so == z3.IntSort() else (bonds if so == BondS else (chgs if so == ChgS else [])))
        n = 0
        for combo in itertools.product(*doms):
            if must_ids is not None and not any(t.get_id() in must_ids for t in combo):
                continue
            out.append(z3.substitute(body, *zip(vs, combo)))
            n += 1
            if n > limit:
                break
    return out


# ------------------------------------------------------------------------------------------------ symbolic construction
def sym_graph(interp: Interp, cname, tag):
    """a graph object of class cname in an arbitrary well-formed pre-state"""
    o = Obj(interp.world.cls(cname))
    for f in CLASS_FIELDS[cname]:
        o.fields[f] = DictRef(FIELD_TYPES[f], z3.Int(f"{tag}{f}"))
    return o


def sym_descr(interp, tag, classes):
    """arbitrary well-formed descriptor object of one of the classes (class decided lazily)"""
    t = z3.Const(f"d!{tag}", DescrS)
    interp.assume(d_wf(t))
    interp.assume(z3.Or(*[DescrS.dcls(t) == H.CLS[c] for c in classes]))
    # centre positions are never placeholders
    interp.assume(z3.If(d_is_atom(t), OIntS.is_OSome(d_slot(t, 0)), z3.And(OIntS.is_OSome(d_slot(t, 2)), OIntS.is_OSome(d_slot(t, 3)))))
    return H.descr_obj(interp, t, classes), t


# ------------------------------------------------------------------------------------------------ heap-aware builtins
def _coerce_field(interp, o, attr, v):
    if isinstance(o, Obj) and o.cls.name in CLASS_FIELDS and attr in FIELD_TYPES:
        t = FIELD_TYPES[attr]
        if isinstance(v, DictRef):
            if v.t is not t:
                raise OutOfSubset(f"field {attr} assigned a {v.t.name} dict")
            d = DictRef(t, v.ref)
            if getattr(v, "auto", False):
                d.auto = True  # a collections.defaultdict stored as a table of the graph (look-ups of absent keys would insert)
            return d
        if isinstance(v, dict):
            h = heap_of(interp)
            d = DictRef(t, h.d_new(t))
            for kk, vv in v.items():
                d.sym_setitem(interp, kk, vv)
            return d
        raise OutOfSubset(f"field {attr} assigned {type(v).__name__}")
    return v


def _deepcopy(interp, x):
    """copy.deepcopy - ASSUMED CONTRACT: the result is structurally equal and every mutable object in it is
    fresh; sharing inside the copied structure is preserved.  Modelled as a copy of the whole heap into a
    fresh block of references: ref r -> C + r  (C above every reference handed out so far)."""
    h = heap_of(interp)
    h.n_blocks += 1
    C = z3.Int(f"C!{h.n_blocks}")
    prev = getattr(h, "block_top", None)
    if prev is None:
        prev = h.base + h.n_alloc + 1000  # fewer than 1000 further plain allocations per path
    interp.assume(C >= prev)
    h.block_top = C + prev + 1000
    span = lambda r: z3.And(r >= C, r < C + prev)  # noqa
    rr = z3.Int(f"r!cp{h.n_blocks}")
    for n, t in H.DICT_TYPES.items():
        k = z3.Const(f"k!cp{h.n_blocks}{n}", t.ksort)
        od, ov = h.dom[n], h.val[n]
        h.dom[n] = z3.Lambda([rr], z3.If(span(rr), z3.Select(od, rr - C), z3.Select(od, rr)))
        if isinstance(t.vkind, tuple):  # values are references: shifted as well
            h.val[n] = z3.Lambda([rr], z3.If(span(rr), z3.Lambda([k], z3.Select(z3.Select(ov, rr - C), k) + C), z3.Select(ov, rr)))
        else:
            h.val[n] = z3.Lambda([rr], z3.If(span(rr), z3.Select(ov, rr - C), z3.Select(ov, rr)))
    for n, t in H.SET_TYPES.items():
        om = h.mem[n]
        h.mem[n] = z3.Lambda([rr], z3.If(span(rr), z3.Select(om, rr - C), z3.Select(om, rr)))

    def cp(v):
        if isinstance(v, DictRef):
            return DictRef(v.t, v.ref + C, allowed_descr=v.allowed_descr)
        if isinstance(v, SetRef):
            return SetRef(v.t, v.ref + C, v.frozen)
        if isinstance(v, Obj) and v.cls.name in CLASS_FIELDS:
            o = Obj(v.cls)
            for f, val in v.fields.items():
                o.fields[f] = cp(val)
            return o
        if isinstance(v, Obj):
            return v  # descriptors are immutable values
        if isinstance(v, (int, str, type(None), tuple)) or z3.is_expr(v):
            return v
        raise OutOfSubset(f"deepcopy of {type(v).__name__}")

    return cp(x)


def _instantiate(interp, cls, args, kwargs):
    if cls.name == "ChangeDict":
        h = heap_of(interp)
        d = DictRef(D_CHG, h.d_new(D_CHG))
        if args:
            for pair in interp.iterate(args[0]):
                k, v = pair
                d.sym_setitem(interp, k, v)
        return d
    return NotHandled


def _defaultdict(interp, factory=None):
    """collections.defaultdict used for LOCAL tables in relabel_atoms: a python dict whose missing keys are
    created by the factory"""
    return AutoDict(factory)


class AutoDict(dict):
    def __init__(self, factory):
        super().__init__()
        self.factory = factory

    def sym_getitem(self, interp, key):
        from .values import veq

        for kk, vv in self.items():
            if interp.decide(veq(kk, key)):
                return vv
        v = interp.call_value(self.factory, [], {})
        dict.__setitem__(self, key, v)
        return v


def install(interp: Interp):
    H.install(interp)
    interp.setattr_hooks.append(_coerce_field)
    interp.builtins["copy.deepcopy"] = Builtin("deepcopy", _deepcopy)
    interp.builtins["deepcopy"] = Builtin("deepcopy", _deepcopy)
    interp.builtins["__instantiate__"] = Builtin("__instantiate__", _instantiate)
    interp.builtins["collections.defaultdict"] = Builtin("defaultdict", _defaultdict)

    def name_hook(it, fr, name):
        if name == "Change":
            return H.ChangeEnum()
        return NotHandled

    interp.name_hooks.append(name_hook)
