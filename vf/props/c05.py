"""C05 - E1: the bookkeeping contract of the matcher's helper _update_state (vf/props/e1_vf2.py, unbounded);
E3: bounded relational contract of the enumeration against the brute-force oracle (vf/e3/isohash.py)."""
import time

from ..core import Report
from ..e3 import isohash
from ..par import pmap
from . import e1_vf2


def run(tier, seed):
    t0 = time.time()
    rep = Report("C05", tier, seed)
    rep.level = "other"
    for obs, _ in pmap("vf.props.e1_vf2", [("ob_update_state", (10000 if tier == "quick" else 40000,))]):
        rep.obs.extend(obs)
    isohash.run_c05(rep, tier, seed)
    rep.functions = e1_vf2.functions()
    rep.rule = "E1: one VC per clause of the bookkeeping invariant; E3 scope (DESIGN Appendix B); distinct_nontrivial = distinct base graphs"
    rep.trusted_base = ["pyvc encoding of CPython semantics + symbolic heap (z3 arrays)", "generic-element summarisation of the two set comprehensions of _update_state", "z3 5.1"]
    rep.assumptions = ["proved: _update_state re-establishes 'frontier_i = unmapped atoms with a mapped neighbour, external_i = the other unmapped atoms' for both graphs and touches nothing else, "
                       "given neighbourhoods that are symmetric, irreflexive and closed over the atoms (what _sanity_check_and_init builds from a graph - not proved here)",
                       "NOT proved: _revert_state (two loops, would need invariants), _find_candidates, the feasibility functions and the main loop; exactness of the enumeration is decided by the bounded part only",
                       "bounded: only the enumerated scope is covered"]
    proof = [o for o in rep.obs if o.kind == "proof"]
    rep.explanation = f"{len(proof)} proof obligations on _update_state; the enumeration itself is bounded (coverage.bounded_groups)"
    rep.samples = [o.name for o in proof[:6]]
    return rep, t0
