"""Plain reference model of the four graph classes (the 'plain reference model' of C09) and helpers to
snapshot / build / compare real graphs.  Independent of the repository's containers: dicts of tuples.

A descriptor is a triple (class name, atoms tuple, parity).
"""
from __future__ import annotations

import copy
import itertools
from collections import defaultdict

from .groups import CENTRES, FIGS, groups, spec_eq_concrete

ROLES = ("plain", "formed", "broken", "fleeting")
CHANGES = ("broken", "fleeting", "formed")
ATOM_CLASSES = ("Tetrahedral", "SquarePlanar", "TrigonalBipyramidal", "Octahedral")
BOND_CLASSES = ("PlanarBond", "AtropBond")


def descr_eq(d, e):
    if d is None or e is None:
        return d is e
    if d[0] != e[0]:
        return False
    return spec_eq_concrete(d[0], tuple(d[1]), d[2], tuple(e[1]), e[2])


def descr_invert(d):
    if d is None or d[2] in (None, 0):
        return d
    return (d[0], d[1], -d[2])


def descr_map(d, f):
    return (d[0], tuple(None if a is None else f(a) for a in d[1]), d[2])


def descr_centre(d):
    if d[0] in ATOM_CLASSES:
        return d[1][0]
    return frozenset(d[1][2:4])


class Ref:
    """kind in MG, SMG, CRG, SCRG"""

    def __init__(self, kind="MG"):
        self.kind = kind
        self.atoms = {}  # id -> {attr: value}   ("atom_type" -> int element)
        self.bonds = {}  # frozenset -> {attr: value}  ("reaction" -> 'formed'|'broken'|'fleeting')
        self.atom_stereo = {}
        self.bond_stereo = {}
        self.atom_changes = {}  # id -> {change: descr}
        self.bond_changes = {}

    def copy(self):
        return copy.deepcopy(self)

    @property
    def stereo_kind(self):
        return self.kind in ("SMG", "SCRG")

    @property
    def reaction_kind(self):
        return self.kind in ("CRG", "SCRG")

    def nbr(self, a):
        return {next(iter(b - {a})) for b in self.bonds if a in b and len(b) == 2}

    def role(self, b):
        return self.bonds[b].get("reaction", "plain") if self.reaction_kind else "plain"

    def components(self):
        seen, comps = set(), []
        for a in self.atoms:
            if a in seen:
                continue
            comp, stack = set(), [a]
            while stack:
                x = stack.pop()
                if x in comp:
                    continue
                comp.add(x)
                stack.extend(self.nbr(x) - comp)
            seen |= comp
            comps.append(comp)
        return comps

    # canonical comparable form of all views
    def canon(self):
        return {
            "kind": self.kind,
            "atoms": {a: dict(v) for a, v in self.atoms.items()},
            "bonds": {tuple(sorted(b)): dict(v) for b, v in self.bonds.items()},
            "atom_stereo": dict(self.atom_stereo),
            "bond_stereo": {tuple(sorted(b)): v for b, v in self.bond_stereo.items()},
            "atom_changes": {a: dict(v) for a, v in self.atom_changes.items()},  # an entry without descriptors is visible (and never legitimate)
            "bond_changes": {tuple(sorted(b)): dict(v) for b, v in self.bond_changes.items()},
        }

    def describe(self):
        c = self.canon()
        return {k: (v if isinstance(v, str) else {str(kk): vv for kk, vv in v.items()}) for k, v in c.items()}

    def relabel(self, f):
        r = Ref(self.kind)
        r.atoms = {f(a): dict(v) for a, v in self.atoms.items()}
        r.bonds = {frozenset(f(x) for x in b): dict(v) for b, v in self.bonds.items()}
        r.atom_stereo = {f(a): descr_map(d, f) for a, d in self.atom_stereo.items()}
        r.bond_stereo = {frozenset(f(x) for x in b): descr_map(d, f) for b, d in self.bond_stereo.items()}
        r.atom_changes = {f(a): {c: descr_map(d, f) for c, d in v.items()} for a, v in self.atom_changes.items()}
        r.bond_changes = {frozenset(f(x) for x in b): {c: descr_map(d, f) for c, d in v.items()} for b, v in self.bond_changes.items()}
        return r

    def mirror(self):
        r = self.copy()
        r.atom_stereo = {a: descr_invert(d) for a, d in self.atom_stereo.items()}
        r.bond_stereo = {b: descr_invert(d) for b, d in self.bond_stereo.items()}
        r.atom_changes = {a: {c: descr_invert(d) for c, d in v.items()} for a, v in self.atom_changes.items()}
        r.bond_changes = {b: {c: descr_invert(d) for c, d in v.items()} for b, v in self.bond_changes.items()}
        return r

    def fully_specified(self):
        ds = list(self.atom_stereo.values()) + list(self.bond_stereo.values())
        for v in list(self.atom_changes.values()) + list(self.bond_changes.values()):
            ds += list(v.values())
        return all(d[2] is not None for d in ds)


# ------------------------------------------------------------------------------------------------ real <-> ref
def _classes():
    import stereomolgraph as s
    from stereomolgraph import stereodescriptors as sd
    from stereomolgraph.graphs.crg import Change

    return s, sd, Change


def real_class(kind):
    s, sd, Change = _classes()
    return {"MG": s.MolGraph, "SMG": s.StereoMolGraph, "CRG": s.CondensedReactionGraph, "SCRG": s.StereoCondensedReactionGraph}[kind]


def kind_of(g):
    return {"MolGraph": "MG", "StereoMolGraph": "SMG", "CondensedReactionGraph": "CRG", "StereoCondensedReactionGraph": "SCRG"}[type(g).__name__]


def mk_descr(d):
    s, sd, Change = _classes()
    return getattr(sd, d[0])(tuple(d[1]), d[2])


def descr_of(obj):
    return (type(obj).__name__, tuple(obj.atoms), obj.parity)


def build_real(ref: Ref, order_seed=None, cls=None):
    """Builds the real graph through the public API; order_seed shuffles insertion orders."""
    import random

    s, sd, Change = _classes()
    g = (cls or real_class(ref.kind))()
    atoms = list(ref.atoms)
    bonds = list(ref.bonds)
    rng = random.Random(order_seed) if order_seed is not None else None
    if rng:
        rng.shuffle(atoms)
        rng.shuffle(bonds)
    for a in atoms:
        attrs = dict(ref.atoms[a])
        g.add_atom(a, attrs.pop("atom_type"), **attrs)
    for b in bonds:
        attrs = dict(ref.bonds[b])
        x, y = sorted(b) if not rng or rng.random() < 0.5 else sorted(b, reverse=True)
        if "reaction" in attrs:
            attrs["reaction"] = Change(attrs["reaction"])
        g.add_bond(x, y, **attrs)
    if ref.stereo_kind:
        items = list(ref.atom_stereo.items())
        if rng:
            rng.shuffle(items)
        for a, d in items:
            g.set_atom_stereo(mk_descr(d))
        items = list(ref.bond_stereo.items())
        if rng:
            rng.shuffle(items)
        for b, d in items:
            g.set_bond_stereo(mk_descr(d))
    if ref.kind == "SCRG":
        for a, v in ref.atom_changes.items():
            if v:
                g.set_atom_stereo_change(**{c: mk_descr(d) for c, d in v.items()})
        for b, v in ref.bond_changes.items():
            if v:
                g.set_bond_stereo_change(**{c: mk_descr(d) for c, d in v.items()})
    return g


def snapshot(g) -> Ref:
    """Reads the RAW containers of a real graph (no public accessor is called, so taking a snapshot can
    not itself mutate the graph) and returns the abstract view."""
    r = Ref(kind_of(g))
    r.atoms = {a: _plain_attrs(v) for a, v in dict.items(g._atom_attrs)}
    r.bonds = {frozenset(b): _plain_attrs(v) for b, v in dict.items(g._bond_attrs)}
    if r.stereo_kind:
        r.atom_stereo = {a: descr_of(d) for a, d in dict.items(g._atom_stereo)}
        r.bond_stereo = {frozenset(b): descr_of(d) for b, d in dict.items(g._bond_stereo)}
    if r.kind == "SCRG":
        r.atom_changes = {a: {c.value: descr_of(d) for c, d in dict.items(v) if d is not None} for a, v in dict.items(g._atom_stereo_change)}
        r.bond_changes = {frozenset(b): {c.value: descr_of(d) for c, d in dict.items(v) if d is not None} for b, v in dict.items(g._bond_stereo_change)}
    return r


def _plain_attrs(v):
    out = {}
    for k, x in dict.items(v):
        if type(x).__name__ == "Change":
            x = x.value
        elif hasattr(x, "item") and not isinstance(x, (int, float, str)):
            try:
                x = x.item()
            except Exception:
                pass
        out[k] = x
    return out


def raw_state(g):
    """Everything, exactly: container types, key sets (incl. keys with empty values), inner contents and the
    identity-free structure.  Used for frame conditions ('nothing changed' must mean nothing)."""
    st = {}
    for slot in ("_atom_attrs", "_neighbors", "_bond_attrs", "_atom_stereo", "_bond_stereo", "_atom_stereo_change", "_bond_stereo_change"):
        if not hasattr(g, slot):
            continue
        c = getattr(g, slot)
        inner = {}
        for k, v in dict.items(c):
            kk = tuple(sorted(k)) if isinstance(k, frozenset) else k
            if isinstance(v, dict):
                inner[kk] = (type(v).__name__, {(a.value if hasattr(a, "value") else a): _val(b) for a, b in dict.items(v)})
            elif isinstance(v, (set, frozenset)):
                inner[kk] = (type(v).__name__, tuple(sorted(v, key=repr)))
            else:
                inner[kk] = _val(v)
        st[slot] = (type(c).__name__, inner)
    return st


def _val(v):
    if hasattr(v, "atoms") and hasattr(v, "parity"):
        return descr_of(v)
    if type(v).__name__ == "Change":
        return v.value
    return repr(v) if not isinstance(v, (int, float, str, type(None), bool, tuple)) else v


def neighbour_view(g):
    """Nbr view: absent key == empty set for atoms; keys for non-atoms are visible."""
    out = {}
    for k, v in dict.items(g._neighbors):
        if v or k not in g._atom_attrs:
            out[k] = set(v)
    return out


def coherent(g):
    """W1-W4 + agreement of all public views with the snapshot; returns list of problems."""
    import numpy as np

    r = snapshot(g)
    probs = []
    for a, v in r.atoms.items():
        if not isinstance(v.get("atom_type"), int) or not (1 <= v["atom_type"] <= 118):
            probs.append(f"atom {a} has no element: {v}")
    for b in r.bonds:
        if len(b) != 2 or not b <= set(r.atoms):
            probs.append(f"bond {set(b)} malformed or dangling")
    nv = neighbour_view(g)
    exp = {a: r.nbr(a) for a in r.atoms if r.nbr(a)}
    if nv != exp:
        probs.append(f"neighbour sets {nv} disagree with bonds {exp}")
    # W7/W8: descriptors are stored under their own centre.  (Ligands need not exist or be bonded: the
    # public API accepts stereo-invalid descriptors and offers is_stereo_valid(); remove_bond keeps them.)
    if r.stereo_kind:
        for a, d in r.atom_stereo.items():
            if d[1][0] != a:
                probs.append(f"atom stereo key {a} vs {d}")
        for b, d in r.bond_stereo.items():
            if frozenset(d[1][2:4]) != b:
                probs.append(f"bond stereo key {set(b)} vs {d}")
    if r.kind == "SCRG":
        for a, v in r.atom_changes.items():
            for c, d in v.items():
                if d[1][0] != a:
                    probs.append(f"atom stereo change {a} {c} {d} stored under the wrong key")
        for b, v in r.bond_changes.items():
            for c, d in v.items():
                if frozenset(d[1][2:4]) != b:
                    probs.append(f"bond stereo change {set(b)} {c} {d} stored under the wrong key")
    # public views (these calls may themselves be defective; callers snapshot raw_state around them)
    try:
        if set(g.atoms) != set(r.atoms) or len(g) != len(r.atoms) or g.n_atoms != len(r.atoms):
            probs.append("atoms / len disagree")
        if list(g.atom_types) != [r.atoms[a]["atom_type"] for a in g.atoms]:
            probs.append("atom_types disagree")
        if {frozenset(b) for b in g.bonds} != set(r.bonds):
            probs.append("bonds disagree")
        for a in r.atoms:
            if not g.has_atom(a):
                probs.append(f"has_atom({a}) false")
            if set(g.bonded_to(a)) != r.nbr(a):
                probs.append(f"bonded_to({a}) = {set(g.bonded_to(a))} vs {r.nbr(a)}")
        order = list(g.atoms)
        m = np.asarray(g.connectivity_matrix())
        for i, x in enumerate(order):
            for j, y in enumerate(order):
                e = 1 if (x != y and frozenset((x, y)) in r.bonds) else 0
                if int(m[i][j]) != e:
                    probs.append(f"connectivity_matrix[{x}][{y}] = {int(m[i][j])} expected {e}")
        comps = [frozenset(c) for c in g.connected_components()]
        if sorted(map(sorted, comps)) != sorted(map(sorted, r.components())):
            probs.append(f"connected_components {comps} vs {r.components()}")
    except Exception as e:  # noqa
        probs.append(f"public view raised {type(e).__name__}: {e}")
    return probs
