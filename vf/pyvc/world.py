"""Loads the REAL source of /repo/src/stereomolgraph on every run (ast.parse), indexes classes,
functions and literal class-level tables.  Nothing is cached across runs; nothing is translated:
the interpreter (interp.py) walks these AST nodes directly.

What is dropped (exactly): type annotations, docstrings, `if TYPE_CHECKING:` blocks.
"""
from __future__ import annotations

import ast
import os

from .. import SRC


class ClassInfo:
    def __init__(self, name, module, node):
        self.name = name
        self.module = module
        self.node = node
        self.base_names = []
        for b in node.bases:
            if isinstance(b, ast.Name):
                self.base_names.append(b.id)
            elif isinstance(b, ast.Subscript) and isinstance(b.value, ast.Name):
                self.base_names.append(b.value.id)  # Generic[...] / _StereoMixin[...]
            elif isinstance(b, ast.Attribute):
                self.base_names.append(b.attr)
        self.methods = {}
        self.properties = set()
        self.classmethods = set()
        self.staticmethods = set()
        self.consts = {}  # name -> python value (ast.literal_eval)
        self.const_nodes = {}
        for n in node.body:
            if isinstance(n, ast.FunctionDef):
                self.methods[n.name] = n
                for d in n.decorator_list:
                    dn = d.id if isinstance(d, ast.Name) else (d.attr if isinstance(d, ast.Attribute) else None)
                    if dn == "property":
                        self.properties.add(n.name)
                    elif dn == "classmethod":
                        self.classmethods.add(n.name)
                    elif dn == "staticmethod":
                        self.staticmethods.add(n.name)
            elif isinstance(n, ast.Assign) and len(n.targets) == 1 and isinstance(n.targets[0], ast.Name):
                self.const_nodes[n.targets[0].id] = n.value
                try:
                    self.consts[n.targets[0].id] = ast.literal_eval(n.value)
                except Exception:
                    pass
            elif isinstance(n, ast.AnnAssign) and isinstance(n.target, ast.Name) and n.value is not None:
                self.const_nodes[n.target.id] = n.value
                try:
                    self.consts[n.target.id] = ast.literal_eval(n.value)
                except Exception:
                    pass
        self.mro: list[ClassInfo] = []

    def __repr__(self):
        return f"<class {self.name}>"

    def find(self, attr, after=None):
        """Resolve attr along the MRO (optionally strictly after class `after`)."""
        seq = self.mro
        if after is not None:
            seq = seq[seq.index(after) + 1 :]
        for c in seq:
            if attr in c.methods:
                return c, ("method", c.methods[attr])
            if attr in c.consts:
                return c, ("const", c.consts[attr])
        return None, None

    def is_subclass_of(self, other: "ClassInfo"):
        return other in self.mro


class ModuleInfo:
    def __init__(self, relpath):
        self.relpath = relpath
        self.path = os.path.join(SRC, relpath)
        self.text = open(self.path).read()
        self.tree = ast.parse(self.text)
        self.functions = {}
        self.classes = {}
        self.assigns = {}
        self.imports = {}  # local name -> (module relpath or dotted, original name)
        self._scan(self.tree.body)

    def _scan(self, body):
        for n in body:
            if isinstance(n, ast.FunctionDef):
                self.functions[n.name] = n
            elif isinstance(n, ast.ClassDef):
                self.classes[n.name] = ClassInfo(n.name, self, n)
            elif isinstance(n, ast.Assign) and len(n.targets) == 1 and isinstance(n.targets[0], ast.Name):
                self.assigns[n.targets[0].id] = n.value
            elif isinstance(n, ast.AnnAssign) and isinstance(n.target, ast.Name) and n.value is not None:
                self.assigns[n.target.id] = n.value
            elif isinstance(n, ast.ImportFrom):
                for a in n.names:
                    self.imports[a.asname or a.name] = (n.module, a.name)
            elif isinstance(n, ast.Import):
                for a in n.names:
                    self.imports[a.asname or a.name] = (a.name, None)
            elif isinstance(n, ast.If):
                # `if TYPE_CHECKING:` dropped; version checks: scan both arms (imports only)
                t = n.test
                if isinstance(t, ast.Name) and t.id == "TYPE_CHECKING":
                    continue
                self._scan(n.body)
                self._scan(n.orelse)


MODULES = {
    "stereomolgraph.stereodescriptors": "stereodescriptors.py",
    "stereomolgraph.graphs.mg": "graphs/mg.py",
    "stereomolgraph.graphs.smg": "graphs/smg.py",
    "stereomolgraph.graphs.crg": "graphs/crg.py",
    "stereomolgraph.graphs.scrg": "graphs/scrg.py",
    "stereomolgraph.algorithms.isomorphism": "algorithms/isomorphism.py",
    "stereomolgraph.algorithms.color_refine": "algorithms/color_refine.py",
    "stereomolgraph.algorithms.bond_orders": "algorithms/bond_orders.py",
    "stereomolgraph.coords": "coords.py",
    "stereomolgraph.xyz2graph": "xyz2graph.py",
    "stereomolgraph.experimental": "experimental.py",
    "stereomolgraph.periodic_table": "periodic_table.py",
    "stereomolgraph.graph2rdmol": "graph2rdmol.py",
    "stereomolgraph.rdmol2graph": "rdmol2graph.py",
}


def _c3(cls, lookup):
    def merge(seqs):
        res = []
        seqs = [list(s) for s in seqs if s]
        while seqs:
            for s in seqs:
                h = s[0]
                if not any(h in t[1:] for t in seqs):
                    break
            else:
                raise TypeError("inconsistent MRO")
            res.append(h)
            seqs = [[x for x in t if x is not h] for t in seqs]
            seqs = [t for t in seqs if t]
        return res

    bases = [lookup(cls, b) for b in cls.base_names]
    bases = [b for b in bases if b is not None]
    return [cls] + merge([_c3(b, lookup) for b in bases] + [bases])


class World:
    def __init__(self):
        self.modules: dict[str, ModuleInfo] = {}
        for dotted, rel in MODULES.items():
            if os.path.exists(os.path.join(SRC, rel)):
                self.modules[rel] = ModuleInfo(rel)
        self.classes: dict[str, ClassInfo] = {}
        for m in self.modules.values():
            for c in m.classes.values():
                self.classes[c.name] = c

        def lookup(cls, bname):
            return self.classes.get(bname)

        for c in self.classes.values():
            try:
                c.mro = _c3(c, lookup)
            except Exception:
                c.mro = [c]

    def module(self, rel) -> ModuleInfo:
        return self.modules[rel]

    def cls(self, name) -> ClassInfo:
        return self.classes[name]

    def func(self, rel, qualname):
        m = self.modules[rel]
        parts = qualname.split(".")
        if len(parts) == 1:
            return m.functions[parts[0]]
        return m.classes[parts[0]].methods[parts[1]]

    def resolve_import(self, mod: ModuleInfo, name):
        """Follow `from stereomolgraph.x import name` to the defining module."""
        if name in mod.imports:
            dotted, orig = mod.imports[name]
            rel = MODULES.get(dotted)
            if dotted == "stereomolgraph.graphs" and orig:
                for r in ("graphs/mg.py", "graphs/smg.py", "graphs/crg.py", "graphs/scrg.py"):
                    mm = self.modules[r]
                    if orig in mm.classes or orig in mm.functions or orig in mm.assigns:
                        rel = r
                        break
            if rel and orig:
                return self.modules[rel], orig
        return None, None
