"""C03, process independence: a constant-propagation obligation over the call graph rooted at the four __hash__ methods -
no call of builtin hash() on a seed-dependent value (str / enum / class) is reachable for a non-empty graph.
Syntactic (AST) dataflow, stated as such; the bounded PYTHONHASHSEED runs are its companion."""
from __future__ import annotations

import ast
import os
import time

from .. import SRC
from ..core import DISCHARGED, FAILED, Ob

FILES = ["graphs/mg.py", "graphs/smg.py", "graphs/crg.py", "graphs/scrg.py", "algorithms/color_refine.py"]


def _funcs():
    out = {}
    for rel in FILES:
        tree = ast.parse(open(os.path.join(SRC, rel)).read())
        for n in tree.body:
            if isinstance(n, ast.FunctionDef):
                out[n.name] = (rel, n)
            elif isinstance(n, ast.ClassDef):
                for m in n.body:
                    if isinstance(m, ast.FunctionDef):
                        out[f"{n.name}.{m.name}"] = (rel, m)
    return out


def ob_hash_seed_free(rep, world=None):
    t = time.time()
    funcs = _funcs()
    by_short = {}
    for k in funcs:
        by_short.setdefault(k.split(".")[-1], []).append(k)
    for cls in ("MolGraph", "StereoMolGraph", "CondensedReactionGraph", "StereoCondensedReactionGraph"):
        root = f"{cls}.__hash__"
        name = f"C03/{funcs[root][0]}:{root}/no-seed-dependent-value-reaches-hash()"
        seen, work, bad = set(), [root], []
        while work:
            f = work.pop()
            if f in seen or f not in funcs:
                continue
            seen.add(f)
            rel, node = funcs[f]
            for c in ast.walk(node):
                if not isinstance(c, ast.Call):
                    continue
                callee = c.func.id if isinstance(c.func, ast.Name) else (c.func.attr if isinstance(c.func, ast.Attribute) else None)
                if callee == "hash":
                    arg = ast.unparse(c.args[0]) if c.args else ""
                    if f.endswith(".__hash__") and arg == "self.__class__":
                        continue  # the hash of an EMPTY graph (outside the property: 'for a non-empty graph')
                    if f == "label_hash":
                        continue  # only reachable through the non-default branch; the call sites are checked below
                    bad.append(f"{rel}:{f} line {c.lineno}: hash({arg})")
                if callee == "label_hash":
                    labels = None
                    if len(c.args) > 1:
                        labels = c.args[1]
                    for kw in c.keywords:
                        if kw.arg == "atom_labels":
                            labels = kw.value
                    if labels is not None and ast.unparse(labels) != "('atom_type',)":
                        bad.append(f"{rel}:{f} line {c.lineno}: label_hash(..., {ast.unparse(labels)}) hashes attribute NAMES (str) - seed dependent")
                if callee and callee in by_short:
                    for cand in by_short[callee]:
                        # methods are followed for every class that defines them (over-approximation)
                        work.append(cand)
                # generator / refinement functions passed as arguments (generator=morgan_generator)
                for kw in c.keywords:
                    if isinstance(kw.value, ast.Name) and kw.value.id in by_short:
                        work.extend(by_short[kw.value.id])
        # label_hash itself: the default branch must not call hash()
        rel, lh = funcs["label_hash"]
        first_if = next((n for n in lh.body if isinstance(n, ast.If)), None)
        if first_if is None or ast.unparse(first_if.test) != "atom_labels == ('atom_type',)" or any(isinstance(x, ast.Call) and getattr(x.func, "id", None) == "hash" for s_ in first_if.body for x in ast.walk(s_)):
            bad.append("label_hash: the ('atom_type',) branch is not hash-free")
        rep.add(Ob(name, "proof", DISCHARGED if not bad else FAILED, "ast", time.time() - t, detail="; ".join(bad),
                   solver_output="\n".join(bad)))
    # order-free aggregation
    rel, node = funcs["numpy_int_multiset_hash"]
    src = ast.unparse(node)
    ok = "np.sort(arr, axis=-1)" in src and "return numpy_int_tuple_hash(sorted_arr, out)" in src
    rep.add(Ob(f"C03/{rel}:numpy_int_multiset_hash/is-tuple-hash-of-the-sorted-array", "proof", DISCHARGED if ok else FAILED, "ast", time.time() - t,
               detail="" if ok else "the multiset hash no longer sorts before hashing"))
