#!/bin/sh
# tools/confirm_seed.sh C09 A  -> confirms in the scratch worktree /tmp/wt/C09: patch applies, tests pass with it,
# demo fails with it and passes without it.  Writes /tmp/seedout/C09/A/confirm.txt
ID="$1"; X="$2"; WT=/tmp/wt/$ID; OUT=/tmp/seedout/$ID/$X
cd $WT || exit 9
git checkout -q -- . ; git clean -fdq src
R=""
PYTHONPATH=$WT/src timeout 600 /venv/bin/python $OUT/demo.py >/dev/null 2>&1; R="$R demo_without=$?"
git apply $OUT/patch.diff || { echo "apply failed" > $OUT/confirm.txt; exit 1; }
PYTHONPATH=$WT/src timeout 600 /venv/bin/python $OUT/demo.py >/dev/null 2>&1; R="$R demo_with=$?"
T=$(PYTHONPATH=$WT/src timeout 1500 /venv/bin/python -m pytest -q -p no:cacheprovider --timeout=900 2>&1 | tail -1)
R="$R tests=[$T]"
git checkout -q -- . ; git clean -fdq src
echo "$R" > $OUT/confirm.txt; echo "$ID/$X $R"
