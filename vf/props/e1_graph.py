"""E1 obligations on the methods of the four graph classes (shared by C09, C19, ...)."""
from __future__ import annotations

from ..contracts import graph_ops as G
from ..core import ERROR, Ob, src_info
from ..pyvc import verify

CLASSES = ("MolGraph", "StereoMolGraph", "CondensedReactionGraph", "StereoCondensedReactionGraph")


def config(cname, mname, tier, pid="C09"):
    """loops are verified with the side-car invariants of vf/contracts/loop_invariants.py (unbounded); a loop without
    an invariant would fall back to bounded unrolling (kind=bounded) with this bound"""
    from ..contracts.loop_invariants import LOOPS

    # (C19 used to explore remove_atom with empty containers only, on the grounds that a rejected request ends before any
    # loop.  A seeded change moved the membership test of SCRG.remove_atom behind its purge loop: the rejected path then
    # runs through the loop, so C19 verifies the loops with their invariants like C09 does.)
    return {"iter_bound": 1, "loop_contracts": LOOPS}


def ob_mutator(rep, world, cname, mname, pid, timeout, tier="quick"):
    c = G.MUTATORS[mname]()
    verify.verify_mutator(rep.obs, world, cname, mname, c, {pid: True}, timeout=timeout, **config(cname, mname, tier, pid))


def ob_query(rep, world, cname, qname, timeout):
    c = G.QUERIES[qname]()
    verify.verify_query(rep.obs, world, cname, qname, c, timeout=timeout)


def tasks(pid, timeout, queries=True, tier="quick"):
    out = []
    for mname, c in G.MUTATORS.items():
        for cname in c.classes:
            out.append(("ob_mutator", (cname, mname, pid, timeout, tier)))
    if queries:
        for qname, c in G.QUERIES.items():
            for cname in c.classes:
                out.append(("ob_query", (cname, qname, timeout)))
    return out


def functions_under_contract(world):
    seen, out = set(), []
    for table in (G.MUTATORS, G.QUERIES):
        for name, c in table.items():
            mname = c.__name__ if table is G.QUERIES else name
            for cname in c.classes:
                cls = world.cls(cname)
                dc, m = cls.find(mname)
                if dc is None:
                    continue
                key = (dc.module.relpath, f"{dc.name}.{mname}")
                if key not in seen:
                    seen.add(key)
                    out.append(src_info(*key))
    return out


def attach_bounded_witnesses(rep):
    """an E1 obligation that failed without a concrete input borrows the replay of the bounded group that
    exercises the same class and method (the bounded exploration is the witness search of this family)"""
    short = {"MolGraph": "MG", "StereoMolGraph": "SMG", "CondensedReactionGraph": "CRG", "StereoCondensedReactionGraph": "SCRG"}
    failed_bounded = [o for o in rep.obs if o.kind == "bounded" and o.status == "failed" and o.replay_code and "/bounded/" in o.name]
    for o in rep.obs:
        if o.status in ("failed", "undecided") and not o.replay_code and ":" in o.name:
            try:
                cm = o.name.split(":")[1].split("/")[0]
                cname, mname = cm.split(".")
            except ValueError:
                continue
            mname = mname.replace("[]", "")
            for b in failed_bounded:
                if f"/{short.get(cname)}/{mname}/" in b.name:
                    o.replay_code = b.replay_code
                    o.detail += f" | concrete input taken from {b.name}: {b.detail[:300]}"
                    if o.status == "undecided":
                        o.status = "failed"  # the solver was undecided, the concrete replay is what makes it a violation
                    break


def ob_role_query(rep, world, cname, qname, timeout):
    verify.verify_query(rep.obs, world, cname, qname, G.ROLE_QUERIES[qname](), timeout=timeout)
