"""E1 obligations on the bookkeeping helpers of the VF2++ matcher (algorithms/isomorphism.py): _update_state keeps the
frontier / external sets of both graphs in step with the partial mapping.

    Inv_i(M, F, E):   F = { x atom, not in M, some neighbour of x is in M }      E = { x atom, not in M, not in F }

Contract of _update_state(a, b, state, params), called right after mapping[a] = b, inverted_mapping[b] = a:
    requires  Inv_1(M - {a}, F1, E1),  Inv_2(M' - {b}, F2, E2),  neighbourhoods symmetric, irreflexive, closed over the atoms
    ensures   Inv_1(M, F1, E1),  Inv_2(M', F2, E2);  mapping, inverted mapping and neighbourhoods untouched
The comprehensions are summarised on a generic element (vf/pyvc/summarise.py); sets of any size."""
from __future__ import annotations

import time

import z3

from ..core import DISCHARGED, ERROR, FAILED, UNDECIDED, Ob, src_info
from ..pyvc import graphmodel as GM
from ..pyvc import heap as H
from ..pyvc import verify
from ..pyvc.interp import Builtin, FuncRef, Interp, OutOfSubset
from ..pyvc.values import B
from ..contracts.loop_invariants import FA

SUMMARISE = {("algorithms/isomorphism.py", "_update_state", 0), ("algorithms/isomorphism.py", "_update_state", 1)}
I = z3.IntSort()


class Side:
    """one graph of the pair in a heap: neighbourhood table, mapping, frontier, external"""

    def __init__(self, tag):
        self.nb = H.DictRef(H.D_NBRS, z3.Int(f"nb{tag}"))
        self.map = H.DictRef(H.D_INTINT, z3.Int(f"map{tag}"))
        self.F = H.SetRef(H.S_INT, z3.Int(f"F{tag}"))
        self.E = H.SetRef(H.S_INT, z3.Int(f"E{tag}"))

    def atom(self, h, x):
        return h.d_has(H.D_NBRS, self.nb.ref, x)

    def nbr(self, h, x, y):
        return h.s_has(H.S_INT, h.d_get(H.D_NBRS, self.nb.ref, x), y)

    def mapped(self, h, x, minus=None):
        m = h.d_has(H.D_INTINT, self.map.ref, x)
        return m if minus is None else z3.And(m, x != minus)

    def inv(self, h, tag, witness, minus=None):
        """Inv without an existential: `witness(x)` names a mapped neighbour of every frontier atom (a Skolem function in the
        pre-condition, an explicit term in the post-condition)"""
        x, y = z3.Int(f"ix{tag}"), z3.Int(f"iy{tag}")
        F = lambda v: h.s_has(H.S_INT, self.F.ref, v)  # noqa
        E = lambda v: h.s_has(H.S_INT, self.E.ref, v)  # noqa
        M = lambda v: self.mapped(h, v, minus)  # noqa
        w = witness(x)
        return [("frontier-atoms-are-atoms", FA([x], z3.Implies(F(x), self.atom(h, x)), patterns=[F(x)])),
                ("frontier-atoms-are-unmapped", FA([x], z3.Implies(F(x), z3.Not(M(x))), patterns=[F(x)])),
                ("frontier-atoms-have-a-mapped-neighbour", FA([x], z3.Implies(F(x), z3.And(self.atom(h, w), M(w), self.nbr(h, w, x))), patterns=[F(x)])),
                ("unmapped-atoms-with-a-mapped-neighbour-are-in-the-frontier",
                 FA([x, y], z3.Implies(z3.And(self.atom(h, x), z3.Not(M(x)), self.atom(h, y), M(y), self.nbr(h, y, x)), F(x)), patterns=[self.nbr(h, y, x)])),
                ("external-is-the-other-unmapped-atoms", FA([x], E(x) == z3.And(self.atom(h, x), z3.Not(M(x)), z3.Not(F(x))), patterns=[E(x)]))]

    def shape(self, h, tag, state_sets=()):
        x, y = z3.Int(f"sx{tag}"), z3.Int(f"sy{tag}")
        nref = lambda v: h.d_get(H.D_NBRS, self.nb.ref, v)  # noqa
        return [z3.ForAll([x, y], z3.Implies(z3.And(self.atom(h, x), self.nbr(h, x, y)), z3.And(self.atom(h, y), self.nbr(h, y, x), x != y)), patterns=[self.nbr(h, x, y)]),
                z3.ForAll([x], z3.Implies(self.mapped(h, x), self.atom(h, x)), patterns=[self.mapped(h, x)]),
                z3.ForAll([x], z3.Implies(self.atom(h, x), z3.And(nref(x) >= 0, nref(x) < h.A0, *[nref(x) != r for r in state_sets])), patterns=[nref(x)])]


def verify_update_state(obs, world, timeout=10000):
    base = "algorithms/isomorphism.py:_update_state"
    it = Interp(world)
    GM.install(it)
    it.prune = verify.prune
    from ..pyvc import summarise as SM

    it.builtins["__comprehension__"] = Builtin("__comprehension__", SM.hook)

    def thunk(interp, handles):
        interp.state["heap"] = H.Heap("pre")
        interp.state["summarise"] = SUMMARISE
        h = H.heap_of(interp)
        interp.assume(h.A0 >= 0)
        s1, s2 = Side("1"), Side("2")
        a, b = z3.Int("new_atom1"), z3.Int("new_atom2")
        refs = [s1.nb.ref, s2.nb.ref, s1.map.ref, s2.map.ref, s1.F.ref, s1.E.ref, s2.F.ref, s2.E.ref]
        interp.assume(z3.And(*[z3.And(r >= 0, r < h.A0) for r in refs]))
        interp.assume(z3.Distinct(s1.F.ref, s1.E.ref, s2.F.ref, s2.E.ref))
        interp.assume(z3.And(s1.nb.ref != s2.nb.ref, s1.map.ref != s2.map.ref))
        h0 = h.snapshot()
        for s_, t_ in ((s1, "1"), (s2, "2")):
            for f in s_.shape(h0, t_, [s1.F.ref, s1.E.ref, s2.F.ref, s2.E.ref]):
                interp.assume(f)
        # the pair has just been entered into both mappings
        interp.assume(z3.And(s1.atom(h0, a), s2.atom(h0, b), s1.mapped(h0, a), s2.mapped(h0, b)))
        cov1, cov2 = z3.Function("cover1", I, I), z3.Function("cover2", I, I)
        for (n1, f1), (n2, f2) in zip(s1.inv(h0, "p1", cov1, minus=a), s2.inv(h0, "p2", cov2, minus=b)):
            interp.assume(f1)
            interp.assume(f2)
        handles.update(h0=h0, h1=h, s1=s1, s2=s2, a=a, b=b, cov=(cov1, cov2))
        mod = world.module("algorithms/isomorphism.py")
        fn = mod.functions["_update_state"]
        state = (s1.map, s2.map, s1.F, s1.E, s2.F, s2.E)
        params = (s1.nb, s2.nb) + (None,) * 10
        return interp.call_value(FuncRef(mod, fn), [a, b, state, params], {})

    try:
        paths = it.run(thunk)
    except OutOfSubset as e:
        obs.append(Ob(f"C05/{base}", "proof", ERROR, detail=f"out of subset: {e}"))
        return
    if not paths:
        obs.append(Ob(f"C05/{base}", "proof", ERROR, detail="no paths"))
    for i, p in enumerate(paths):
        hd = p.handles
        pre = [B(f) for f in list(p.assumptions) + list(p.pc)]
        if "h0" not in hd:
            obs.append(Ob(f"C05/{base}#path{i}", "proof", ERROR, detail="path ended before the call"))
            continue
        if p.outcome[0] == "raise":
            r, s_, dt = verify.solve(pre, timeout)
            obs.append(Ob(f"C05/{base}/does-not-raise#path{i}", "proof", DISCHARGED if r == z3.unsat else UNDECIDED, "z3", dt, detail="" if r == z3.unsat else f"raised {p.outcome[1]}"))
            continue
        h0, h1, s1, s2, a, b = hd["h0"], hd["h1"], hd["s1"], hd["s2"], hd["a"], hd["b"]
        goals = []
        for s_, t_, new_, cov_ in ((s1, "1", a, hd["cov"][0]), (s2, "2", b, hd["cov"][1])):
            # witness after the update: the old one for an atom that already was in the frontier, else the atom just mapped
            wit = lambda v, s_=s_, new_=new_, cov_=cov_: z3.If(h0.s_has(H.S_INT, s_.F.ref, v), cov_(v), new_)  # noqa
            for n, f in s_.inv(h1, "q" + t_, wit):
                goals.append((f"graph{t_}/{n}", f))
        goals.append(("mappings-and-neighbourhoods-untouched", z3.And(h1.dom["intint"] == h0.dom["intint"], h1.val["intint"] == h0.val["intint"], h1.dom["nbrs"] == h0.dom["nbrs"], h1.val["nbrs"] == h0.val["nbrs"])))
        r_ = z3.Int("fr")
        goals.append(("neighbour-sets-untouched", z3.ForAll([r_], z3.Implies(z3.And(r_ >= 0, r_ < h0.A0, r_ != s1.F.ref, r_ != s1.E.ref, r_ != s2.F.ref, r_ != s2.E.ref),
                                                                            z3.Select(h1.mem["iset"], r_) == z3.Select(h0.mem["iset"], r_)))))
        for n, f in goals:
            t0 = time.time()
            r, s_, dt = verify.solve(pre + [z3.Not(f)], min(timeout, 3000))
            if r == z3.unknown:
                # hypotheses that share a heap array / ghost function with the goal, E-matching with a longer budget, then model-based
                ga = verify._array_syms(B(f))
                rel = [q for q in pre if not verify._array_syms(q) or (verify._array_syms(q) & ga)]
                r, s_, dt = verify.solve(rel + [z3.Not(f)], timeout)
            if r == z3.unknown:
                s2_ = z3.Solver()
                s2_.set("timeout", timeout)
                s2_.add(*rel, z3.Not(f))
                r = s2_.check()
            obs.append(Ob(f"C05/{base}/{n}#path{i}", "proof", DISCHARGED if r == z3.unsat else (FAILED if r == z3.sat else UNDECIDED), "z3", time.time() - t0,
                          detail="" if r == z3.unsat else "the bookkeeping of the partial mapping is not re-established"))
            if __import__("os").environ.get("VF_DEBUG"):
                print(obs[-1].status, round(obs[-1].time_s, 1), obs[-1].name, flush=True)


def ob_update_state(rep, world, timeout):
    verify_update_state(rep.obs, world, timeout)


def functions():
    return [src_info("algorithms/isomorphism.py", "_update_state")]
