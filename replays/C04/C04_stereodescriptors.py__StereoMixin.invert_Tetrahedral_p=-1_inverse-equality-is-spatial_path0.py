"""Replay of a failed obligation on the real code.  Run with /verif/.venv/bin/python.
Exits 1 when the violation reproduces on the tree under /repo, 0 otherwise.
obligation: C04/stereodescriptors.py:_StereoMixin.invert/Tetrahedral/p=-1/inverse-equality-is-spatial#path0
invert contract clause inverse-equality-is-spatial fails for Tetrahedral((2, None, None, 0, None),-1)
"""
import sys
sys.path.insert(0, '/repo/src')
from stereomolgraph.stereodescriptors import Tetrahedral
a = Tetrahedral((2, None, None, 0, None), -1); b = a.invert(); c = b.invert()
print(a, b, c, a == b)
ok = (a.atoms, a.parity) == ((2, None, None, 0, None), -1) and (c.atoms, c.parity) == (a.atoms, a.parity) and type(c) is type(a)
if -1 in (1, -1): ok = ok and (a == b) is True and b.parity == -a.parity and b.atoms == a.atoms
else: ok = ok and b is a
sys.exit(0 if ok else 1)
