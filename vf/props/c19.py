"""C19 - rejected edits are atomic (bounded stand-in; E1 obligations are added by the heap engine)."""
import time

from ..core import Report
from ..e3 import history


def run(tier, seed):
    t0 = time.time()
    rep = Report("C19", tier, seed)
    rep.level = "exploration"
    history.run_histories(rep, "C19", tier, seed, ("rejected-raises-and-changes-nothing", "failed-request-changes-nothing"), with_queries=True)
    rep.rule = ("every ill-formed request of the kinds listed in C19 (and every look-up) issued at every state reached by the bounded history exploration; "
                "raw containers compared before/after")
    rep.assumptions = ["bounded: universe of 4 atom identifiers, depth/walk bounds"]
    return rep, t0
