#!/bin/sh
# tools/save_seed.sh <worktree> <seed-id> <property> <caught_by> <needs>  -- stores patch.diff, demo.py and meta.json under seeded/<seed-id>
WT="$1"; SID="$2"; PID="$3"; CB="$4"; NEEDS="$5"
mkdir -p /verif/seeded/$SID
git -C "$WT" diff -- src > /verif/seeded/$SID/patch.diff
cp "$WT/demo.py" /verif/seeded/$SID/demo.py
python3 - "$SID" "$PID" "$CB" "$NEEDS" <<'P'
import json,sys
sid,pid,cb,needs=sys.argv[1:5]
json.dump({"property":pid,"needs":needs,
 "ran":["with the change: PYTHONPATH=<worktree>/src /venv/bin/python demo.py -> exit 1","without (git stash): demo.py -> exit 0","with the change: PYTHONPATH=<worktree>/src /venv/bin/python -m pytest -q -p no:cacheprovider --timeout=900 tests -> 264 passed, 43 skipped",
        f"tools/try_mutant.sh seeded/{sid}/patch.diff {pid} quick"],
 "produced_by":"independent sub-agent (round 4) given only the property text and a scratch worktree of /repo at 980d49b",
 "confirmed_by_me":"patch applies; demo exits 0 without and 1 with the change; suite 264 passed with the change",
 "caught_by":cb}, open(f"/verif/seeded/{sid}/meta.json","w"), indent=1)
P
