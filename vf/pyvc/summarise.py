"""Generic-element summarisation of dict / set comprehensions over containers of ANY size (DESIGN 2.2 (c)).

    R = {K(x): V(x) for x in C if P(x)}            R = {E(x) for x in C if P(x)}

The element expressions are executed ONCE, symbolically, on a generic element x of the container; the result object
and the heap after the comprehension are then described by closed, universally quantified facts derived from that one
execution.  This is exact (not an over-approximation that could hide a defect, not an unrolling) provided the
iterations are independent, which is checked on the generic execution:

  * no branch inside the iteration may depend on x in a way the facts known about a generic element do not settle
    (filters and conditional expressions are evaluated to formulas, `mapping.get(k, d)` to an if-then-else term);
    an unsettled branch aborts with OutOfSubset - nothing is assumed;
  * every heap write of the iteration must go to an object allocated in the SAME iteration (checked syntactically on
    the store chains); writes elsewhere abort.

Objects allocated by the iteration of element x get the references nr_i(x) (i = allocation site inside the iteration)
with the assumed allocator contract: nr_i is injective on C, its values lie in the fresh range [lo, hi) above every
reference handed out before, different sites give different references.  (Python: each evaluation of a display /
copy() / comprehension creates a new object; C is finite, so such an injection into an unbounded reference space exists.)

Facts added (x, k universally quantified):
    C[x]  ==>  A'[nr_i(x)] = (row written by the generic iteration)          for every heap array A written
    r outside [lo, hi)  ==>  A'[r] = A[r]                                    frame
    dict:  C[x] and P(x)  ==>  dom_R[K(x)]
           dom_R[k]  ==>  C[w(k)] and P(w(k)) and K(w(k)) = k and val_R[k] = V(w(k))      (w: Skolem witness; for a
           repeated key Python keeps the value of SOME element with that key - the last one)
    set:   mem_R = lambda m. exists x. C[x] and P(x) and E(x) = m
A comprehension nested inside the generic iteration (a set comprehension building the value) becomes a lambda / exists
term over its own generic element; it may not allocate per element.

Sites are summarised only where a side-car table (vf/contracts/loop_invariants.py: SUMMARISE) names them; everything
else keeps the bounded unrolling."""
from __future__ import annotations

import ast

import z3

from . import heap as H
from .interp import NotHandled, OutOfSubset
from .values import B, FSet, OI

ALLOC_SITE = z3.Function("alloc_site", z3.IntSort(), z3.IntSort())


def comp_ordinal(func, node):
    comps = sorted((n for n in ast.walk(func) if isinstance(n, (ast.DictComp, ast.SetComp, ast.ListComp, ast.GeneratorExp))), key=lambda n: (n.lineno, n.col_offset))
    return comps.index(node)


def membership(interp, iterable):
    """-> (membership array, element sort, dict whose items are traversed or None)"""
    h = H.heap_of(interp)
    if isinstance(iterable, H.DictKeys):
        return z3.Select(h.dom[iterable.d.t.name], iterable.d.ref), iterable.d.t.ksort, None
    if isinstance(iterable, H.DictRef):
        return z3.Select(h.dom[iterable.t.name], iterable.ref), iterable.t.ksort, None
    if isinstance(iterable, H.DictItems):
        return z3.Select(h.dom[iterable.d.t.name], iterable.d.ref), iterable.d.t.ksort, iterable.d
    if isinstance(iterable, H.SymSeq):
        return iterable.arr, iterable.esort, iterable.source if iterable.kind == "items" else None
    if isinstance(iterable, H.SetRef):
        return iterable.arr(interp), iterable.t.esort, None
    return None, None, None


def _elem(interp, x, esort, src, heap):
    kk = H.BondVal(x) if esort == H.BondS else x
    if src is not None:
        return (kk, src.wrap(interp, heap.d_get(src.t, src.ref, x)))
    return kk


def _key_term(interp, k, ksort):
    if ksort == H.BondS:
        return H.as_bond(interp, k).t
    if isinstance(k, OI):
        if interp.decide(k.isnone):
            raise OutOfSubset("None as key of a summarised comprehension")
        return H._int(k)
    return H._int(k)


def _store_indices(a1, a0):
    """indices written on the way from array term a0 to a1 (a1 must be a chain of Stores over a0)"""
    out = []
    cur = a1
    while not cur.eq(a0):
        if z3.is_app(cur) and cur.decl().kind() == z3.Z3_OP_STORE:
            out.append(cur.arg(1))
            cur = cur.arg(0)
        else:
            raise OutOfSubset("heap array rebuilt inside a summarised comprehension")
    return out


def hook(interp, e, fr):
    sites = interp.state.get("summarise")
    depth = interp.state.get("generic_depth", 0)
    if not sites:
        return NotHandled
    if depth == 0:
        if fr.func is None:
            return NotHandled
        qual = f"{fr.defcls.name}.{fr.func.name}" if fr.defcls is not None else fr.func.name  # method / module-level function
        key = (fr.module.relpath, qual, comp_ordinal(fr.func, e))
        if key not in sites:
            return NotHandled
    if isinstance(e, (ast.ListComp, ast.GeneratorExp)) or len(e.generators) != 1 or e.generators[0].is_async:
        if depth:
            raise OutOfSubset("list comprehension / generator inside a summarised comprehension")
        return NotHandled
    g = e.generators[0]
    iterable = interp.ev(g.iter, fr)
    if isinstance(iterable, (tuple, list, H.BondVal, FSet)):
        return _small(interp, e, fr, iterable)
    C, esort, src = membership(interp, iterable)
    if C is None:
        raise OutOfSubset(f"summarised comprehension over {type(iterable).__name__}")
    if depth > 0:
        return _inner_set(interp, e, fr, g, C, esort, src)
    return _outer(interp, e, fr, g, C, esort, src)


def _small(interp, e, fr, items):
    """a comprehension over a concrete small collection (the two atoms of a bond): evaluated element by element, no filter forks"""
    from .interp import Frame

    g = e.generators[0]
    out = []
    if isinstance(items, H.BondVal):
        # the iteration order of a frozenset is unspecified; it cannot matter for the SET that is built
        if not isinstance(e, ast.SetComp):
            raise OutOfSubset("dict comprehension over a bond")
        seq = [items.lo] if interp.decide(items.lo == items.hi) else [items.lo, items.hi]
    else:
        seq = interp.iterate(items)
    for item in seq:
        fr2 = Frame(fr.module, dict(fr.env), fr.defcls, fr.self_obj)
        interp.assign(g.target, item, fr2)
        if all(interp.decide(interp.ev(c, fr2)) for c in g.ifs):
            out.append((interp.ev(e.key, fr2), interp.ev(e.value, fr2)) if isinstance(e, ast.DictComp) else interp.ev(e.elt, fr2))
    if isinstance(e, ast.DictComp):
        d = {}
        for k, v in out:
            interp.setitem(d, k, v)
        return d
    return FSet(out)


def _filter(interp, g, fr2):
    conds = [B(interp.truth(interp.ev(c, fr2))) for c in g.ifs]
    return z3.And(*conds) if conds else z3.BoolVal(True)


def _inner_set(interp, e, fr, g, C, esort, src):
    """set comprehension inside a generic iteration: mem = lambda m. exists n. C[n] and P(n) and E(n) = m"""
    from .interp import Frame

    if not isinstance(e, ast.SetComp):
        raise OutOfSubset("dict comprehension nested in a summarised comprehension")
    h = H.heap_of(interp)
    interp.state["n_generic"] = interp.state.get("n_generic", 0) + 1
    n = z3.Const(f"n!G{interp.state['n_generic']}", esort)
    fr2 = Frame(fr.module, dict(fr.env), fr.defcls, fr.self_obj)
    interp.assign(g.target, _elem(interp, n, esort, src, h), fr2)
    before = (dict(h.dom), dict(h.val), dict(h.mem), h.n_alloc, len(h.generic[3]) if getattr(h, "generic", None) else 0)
    n_ass = len(interp.assumptions)
    interp.assumptions.append(z3.Select(C, n))
    interp.state["generic_depth"] += 1
    try:
        P = _filter(interp, g, fr2)
        interp.assumptions.append(P)
        el = interp.ev(e.elt, fr2)
    finally:
        interp.state["generic_depth"] -= 1
        del interp.assumptions[n_ass:]
    if any(h.dom[k] is not before[0][k] for k in h.dom) or any(h.val[k] is not before[1][k] for k in h.val) or any(h.mem[k] is not before[2][k] for k in h.mem) \
            or (len(h.generic[3]) if getattr(h, "generic", None) else 0) != before[4]:
        raise OutOfSubset("heap effect per element of a nested comprehension")
    if isinstance(el, H.BondVal):
        st, et = H.S_BOND, el.t
    else:
        st, et = H.S_INT, _key_term(interp, el, z3.IntSort())
    m = z3.Const(f"m!G{interp.state['n_generic']}", st.esort)
    if et.eq(n):
        row = z3.Lambda([m], z3.substitute(z3.And(z3.Select(C, n), P), (n, m)))
    else:
        row = z3.Lambda([m], z3.Exists([n], z3.And(z3.Select(C, n), P, et == m)))
    r = h.s_new(st)
    h.s_assign(st, r, row)
    return H.SetRef(st, r)


def _outer(interp, e, fr, g, C, esort, src):
    from .interp import Frame

    h = H.heap_of(interp)
    interp.state["n_generic"] = interp.state.get("n_generic", 0) + 1
    tag = f"Q{interp.state['n_generic']}"
    x = z3.Const(f"x!{tag}", esort)
    lo = h.top()
    A0 = (dict(h.dom), dict(h.val), dict(h.mem))
    saved_alloc = (h.base, h.n_alloc, getattr(h, "block_top", None))
    log = []
    h.generic = (tag, x, esort, log)
    fr2 = Frame(fr.module, dict(fr.env), fr.defcls, fr.self_obj)
    interp.assign(g.target, _elem(interp, x, esort, src, h), fr2)
    n_ass = len(interp.assumptions)
    interp.assumptions.append(z3.Select(C, x))
    H.note_ground(interp, x)
    interp.state["generic_depth"] = 1
    try:
        P = _filter(interp, g, fr2)
        if log:
            raise OutOfSubset("allocation inside the filter of a summarised comprehension")
        interp.assumptions.append(P)
        if isinstance(e, ast.DictComp):
            kv, vv = interp.ev(e.key, fr2), interp.ev(e.value, fr2)
        else:
            kv, vv = interp.ev(e.elt, fr2), None
    finally:
        interp.state["generic_depth"] = 0
        h.generic = None
        del interp.assumptions[n_ass:]
    guard = z3.Select(C, x)
    hi = z3.Int(f"T!{tag}")
    facts = [hi >= lo]
    # --- allocator contract for the objects created by the iterations
    fresh_refs = [r for _, r in log]
    for i, (f_, r_) in enumerate(log):
        inv = z3.Function(f"unr!{tag}_{i}", z3.IntSort(), esort)
        site = interp.state["n_generic"] * 100 + i
        facts.append(z3.ForAll([x], z3.Implies(guard, z3.And(r_ >= lo, r_ < hi, inv(r_) == x, ALLOC_SITE(r_) == site)), patterns=[r_]))
    # --- heap after the comprehension
    r0 = z3.Int(f"lr")
    for kind_, cur, old in (("dom", h.dom, A0[0]), ("val", h.val, A0[1]), ("mem", h.mem, A0[2])):
        for name in list(cur):
            if cur[name] is old[name]:
                continue
            a1, a0 = cur[name], old[name]
            for ix in _store_indices(a1, a0):
                if not any(ix.eq(fr_) for fr_ in fresh_refs):
                    raise OutOfSubset(f"a summarised comprehension writes to an object it did not create ({kind_}_{name} at {ix})")
            new = z3.Const(f"{kind_}_{name}!{tag}", a0.sort())
            for r_ in fresh_refs:
                facts.append(z3.ForAll([x], z3.Implies(guard, z3.Select(new, r_) == z3.Select(a1, r_)), patterns=[z3.Select(new, r_)]))
            facts.append(z3.ForAll([r0], z3.Implies(z3.Or(r0 < lo, r0 >= hi), z3.Select(new, r0) == z3.Select(a0, r0)), patterns=[z3.Select(new, r0)]))
            cur[name] = new
    # allocation state: everything handed out so far is below hi
    h.base, h.n_alloc = hi, 0
    if hasattr(h, "block_top"):
        del h.block_top
    # --- the result object
    GP = z3.And(guard, P)
    if isinstance(e, ast.SetComp):
        if isinstance(kv, H.BondVal):
            st, et = H.S_BOND, kv.t
        else:
            st, et = H.S_INT, _key_term(interp, kv, z3.IntSort())
        m = z3.Const(f"m!{tag}", st.esort)
        row = z3.Lambda([m], z3.substitute(GP, (x, m))) if et.eq(x) else z3.Lambda([m], z3.Exists([x], z3.And(GP, et == m)))
        r = h.s_new(st)
        h.s_assign(st, r, row)
        res = H.SetRef(st, r)
    else:
        ksort = H.BondS if isinstance(kv, H.BondVal) else z3.IntSort()
        kt = kv.t if isinstance(kv, H.BondVal) else _key_term(interp, kv, ksort)
        if isinstance(vv, H.DictRef):
            vk, vt = ("ref", vv.t.name), vv.ref
        elif isinstance(vv, H.SetRef):
            vk, vt = ("setref", vv.t.name), vv.ref
        else:
            raise OutOfSubset(f"value of a summarised dict comprehension: {type(vv).__name__}")
        cands = [t for t in H.DICT_TYPES.values() if t.ksort == ksort and t.vkind == vk]
        if len(cands) != 1:
            raise OutOfSubset(f"no unique table type for a comprehension {ksort} -> {vk}")
        t = cands[0]
        domR = z3.Const(f"domR!{tag}", z3.ArraySort(ksort, z3.BoolSort()))
        valR = z3.Const(f"valR!{tag}", z3.ArraySort(ksort, t.vsort))
        k = z3.Const(f"k!{tag}", ksort)
        if kt.eq(x):
            facts.append(z3.ForAll([x], z3.Select(domR, x) == GP, patterns=[z3.Select(domR, x)]))
            facts.append(z3.ForAll([x], z3.Implies(GP, z3.Select(valR, x) == vt), patterns=[z3.Select(valR, x)]))
        else:
            w = z3.Function(f"wit!{tag}", ksort, esort)
            facts.append(z3.ForAll([x], z3.Implies(GP, z3.Select(domR, kt)), patterns=[z3.Select(C, x)]))
            body = z3.substitute(z3.And(GP, kt == k, z3.Select(valR, k) == vt), (x, w(k)))
            facts.append(z3.ForAll([k], z3.Implies(z3.Select(domR, k), body), patterns=[z3.Select(domR, k)]))
        r = h.d_new(t)
        h.d_assign(t, r, domR, valR)
        res = H.DictRef(t, r)
    for f in facts:
        interp.assume(f)
    interp.state["summarised"] = interp.state.get("summarised", 0) + 1
    interp.state["quantified_facts"] = True  # quantified facts about the heap from here on: enable the second pruning stage
    return res
