"""C09 - any editing history leaves a coherent graph.  (E1 obligations are added in vf/props/c09 as the
heap engine grows; the bounded lockstep exploration below is the stand-in and is never counted as proved.)"""
import time

from ..core import Report
from ..e3 import history


def run(tier, seed):
    t0 = time.time()
    rep = Report("C09", tier, seed)
    rep.level = "exploration"
    history.run_histories(rep, "C09", tier, seed, ("view-matches-reference", "coherent"), with_queries=True)
    rep.rule = ("lockstep execution of the real classes and the plain reference model: breadth-first over a menu of well- and ill-formed requests "
                "from 3 start states per class + random walks; distinct_nontrivial = distinct (class, start, history) states visited")
    rep.assumptions = ["bounded: universe of 4 atom identifiers, depth/walk bounds as in the rule"]
    return rep, t0
