#!/bin/sh
# tools/seeds.sh "1 2 3" "C01 C02 ..." : runs the quick checks under several seeds, prints one line per (seed, check) that is not clean
cd /verif
for sd in $1; do for c in $2; do
  out=$(VERIF_SEED=$sd ./check $c quick 2>&1); rc=$?
  echo "$out" | grep -E "^\[C" | sed "s/^/seed=$sd rc=$rc /" | cut -c1-200
  if [ $rc -ne 0 ]; then echo "$out" | grep -E "VIOLATION|UNDECIDED|CHECKER" | head -5 | cut -c1-260; fi
done; done
