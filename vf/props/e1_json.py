"""E1 obligation for C15: JSONHandler._stereo_from_payload is total on every payload as_dict can emit and returns the
descriptor it was given (class, atoms with placeholders, parity incl. unspecified)."""
from __future__ import annotations

import time

import z3

from ..core import DISCHARGED, ERROR, FAILED, UNDECIDED, Ob
from ..pyvc.interp import FuncRef, Interp, Obj, OutOfSubset
from ..pyvc.values import B, OI, Not_, veq
from ..spec.groups import CENTRES, FIGS, PARITIES


def ob_payload(rep, world, cname):
    n = len(FIGS[cname])
    mod = world.module("experimental.py")
    fn = mod.classes["JSONHandler"].methods["_stereo_from_payload"]
    for par in PARITIES[cname]:
        name = f"C15/experimental.py:JSONHandler._stereo_from_payload/{cname}/parity={par}"
        t = time.time()
        atoms = [OI(False if i in CENTRES[cname] else z3.Bool(f"n{i}"), z3.Int(f"a{i}")) for i in range(n)]
        it = Interp(world)

        def thunk(interp, handles, atoms=atoms, par=par):
            payload = {cname: (list(atoms), par)}  # what json.loads gives back: a one-entry dict, atoms as a list
            return interp.call_function(mod, fn, [payload], {}, mod.classes["JSONHandler"], None)

        try:
            paths = it.run(thunk)
        except OutOfSubset as e:
            rep.add(Ob(name, "proof", ERROR, "pyvc", detail=f"out of subset: {e}"))
            continue
        ok, detail = True, ""
        for p in paths:
            s = z3.Solver()
            s.add(*[B(c) for c in p.pc])
            if p.outcome[0] == "raise":
                if s.check() != z3.unsat:
                    m = s.model()
                    ok, detail = False, f"raises {p.outcome[1]} (placeholders: {[str(m.eval(a.isnone, True)) if not isinstance(a.isnone, bool) else a.isnone for a in atoms]})"
                continue
            r = p.outcome[1]
            good = isinstance(r, Obj) and r.cls.name == cname and veq(tuple(r.fields["atoms"]), tuple(atoms)) is not False
            if not good:
                ok, detail = False, f"returns {r!r}"
                continue
            s.add(B(Not_(veq(tuple(r.fields["atoms"]), tuple(atoms)))) if not isinstance(veq(tuple(r.fields["atoms"]), tuple(atoms)), bool) else z3.BoolVal(False))
            same_par = veq(r.fields["parity"], par)
            if same_par is not True and (same_par is False or s.check() != z3.unsat):
                ok, detail = False, "atoms or parity differ"
        replay = f"""from stereomolgraph.experimental import JSONHandler
import json
payload = json.loads(json.dumps({{{cname!r}: ([10, 11, 12, 13, None, 15, 16][:{n}], {par!r})}}))
try:
    d = JSONHandler._stereo_from_payload(payload)
    ok = type(d).__name__ == {cname!r} and d.parity == {par!r} and list(d.atoms) == [10, 11, 12, 13, None, 15, 16][:{n}]
except Exception as e:
    print('raised', type(e).__name__, e); ok = False
sys.exit(0 if ok else 1)
"""
        rep.add(Ob(name, "proof", DISCHARGED if ok and paths else FAILED, "pyvc+z3", time.time() - t, detail=detail, replay_code=None if ok else replay))


def tasks():
    return [("ob_payload", (c,)) for c in FIGS]
