"""C09 - see vf/props/graphprop.py and DESIGN.md section 4."""
from . import graphprop


def run(tier, seed):
    return graphprop.run("C09", tier, seed)
