"""C20 - E2 obligations over the reals on the real source (vf/e2) + bounded contracts on the coordinate side (vf/e3/geom.py)."""
import time

from ..core import Report, src_info
from ..e3 import geom
from ..par import pmap

E2 = {"07": ["ob_handedness", "ob_tetrahedral", "ob_planar_bond"], "20": ["ob_pairwise", "ob_cutoff_table"]}["20"]
FUNCS = {"07": [("coords.py", "handedness"), ("xyz2graph.py", "_tetrahedral_from_coords"), ("xyz2graph.py", "_planar_bond_from_coords")],
         "20": [("coords.py", "pairwise_distances"), ("coords.py", "_DefaultFuncDict.array"), ("coords.py", "_DefaultFuncDict.__missing__"), ("coords.py", "default_connectivity_cutoff")]}["20"]


def run(tier, seed):
    t0 = time.time()
    rep = Report("C20", tier, seed)
    rep.level = "other"
    for obs, _ in pmap("vf.e2.obligations", [(f, (tier,)) for f in E2]):
        rep.obs.extend(obs)
    geom.run_c20(rep, tier, seed)
    rep.functions = [src_info(*f) for f in FUNCS]
    proof = [o for o in rep.obs if o.kind == "proof"]
    rep.rule = ("E2: polynomial identities derived by executing the real source over sympy expressions; E3: idealised templates with noise / random point sets / "
                "repository XYZ data x rigid motions, reflections, atom permutations (seeded); distinct_nontrivial = distinct base geometries")
    rep.trusted_base = ["sympy exact polynomial arithmetic", "numpy indexing/broadcasting on object arrays (the proxy overrides only sqrt, sign, norm, divide, multiply, square, sum, dot, cross)",
                        "oracle symmetry groups (vf/spec/groups.py)"]
    rep.assumptions = ["IEEE doubles are treated as real numbers in the E2 obligations",
                       "general position: no quantity whose sign is taken is exactly zero; bounded cases within 1e-6 (1e-5 far from the origin) of a bonding threshold, or on a planarity threshold "
                       "(point sets for which are_planar depends on the point order, see the known finding), are skipped",
                       "rotation invariance is proved for the three axis rotations modulo c^2+s^2=1 (they generate SO(3)); the thorough tier adds the quaternion parametrisation of all of SO(3)",
                       "vectorised numpy code is executed symbolically for a fixed number of points (4 resp. 6); the formulas are uniform in the number of points",
                       "bounded: TBP / square-planar / octahedral perception, whole-graph equivariance, XYZ text round trip, threshold exactness on doubles"]
    rep.explanation = f"{len(proof)} identities over the reals discharged by exact expansion on the real source; the remaining clauses are bounded (coverage.bounded_groups)"
    rep.samples = [o.name for o in proof][:8]
    return rep, t0
