"""Bounded contract for C18 (bond-order perception) + structural frame obligations on bond_orders.py."""
from __future__ import annotations

import ast
import itertools
import os
import random
import time

import numpy as np

from .. import SRC
from ..core import DISCHARGED, FAILED, Ob
from .harness import Group, safe

STD_VALENCE = {1: {1}, 6: {4}, 7: {3}, 8: {2}, 9: {1}, 17: {1}, 35: {1}, 53: {1}, 16: {2, 6}, 15: {3, 5}}
SMILES = [
    "C", "CC", "C=C", "C#C", "C=C=C", "C=CC=C", "C=C=CC=C", "C=C=C=C", "c1ccccc1", "c1ccncc1", "c1ccoc1", "c1ccsc1", "c1cc[nH]c1", "c1c[nH]cn1",
    "c1ccc2ccccc2c1", "C1=CC=CC=CC=C1", "O=C=O", "C#N", "CC#N", "C=O", "CC(=O)O", "CC(C)=O", "NC(N)=O", "NCC(=O)O", "C=CC=O", "C=C=O", "C=CN=C=O", "CN=C=O",
    "C=C=Cc1ccccc1", "Oc1ccccc1", "Nc1ccccc1", "CSC", "CS(C)(=O)=O", "OS(O)(=O)=O", "P", "CP(C)C", "COP(=O)(OC)OC", "FP(F)(F)(F)F", "CCl", "BrCBr", "FC(F)(F)I",
    "CO", "COC", "CN", "C1CC1", "C1CCCCC1", "C1=CCCCC1", "N#CC#N", "OC=O", "C=CC#N", "c1ccc(cc1)-c1ccccc1", "O=C1C=CC(=O)C=C1", "C=CC=CC=C", "S=C=S", "N=C=N", "ClC(Cl)=C(Cl)Cl",
    # several unsaturated / hypervalent groups at once: the unsaturated atoms cannot be matched perfectly in one go
    "O=S(=O)=O", "C=S(=O)=O", "O=C=NCN=C=O", "O=C=NS(=O)(=O)Cl", "CS(=O)(=O)CS(C)(=O)=O", "OS(=O)(=O)CS(O)(=O)=O", "C=C=CCC=C=C", "O=C=C=C=O", "O=P(O)(O)OP(=O)(O)O",
]


def mol_input(smiles):
    from rdkit import Chem

    m = Chem.AddHs(Chem.MolFromSmiles(smiles))
    n = m.GetNumAtoms()
    types = [a.GetAtomicNum() for a in m.GetAtoms()]
    ac = np.zeros((n, n), dtype=int)
    for b in m.GetBonds():
        i, j = b.GetBeginAtomIdx(), b.GetEndAtomIdx()
        ac[i, j] = ac[j, i] = 1
    return types, ac


def structural_ok(bo, ac):
    bo = np.asarray(bo)
    if bo.shape != ac.shape:
        return "shape differs"
    if not np.issubdtype(bo.dtype, np.integer):
        return f"dtype {bo.dtype} is not integer"
    if not (bo == bo.T).all():
        return "not symmetric"
    if ((bo >= 1) != (ac == 1)).any():
        i, j = np.argwhere((bo >= 1) != (ac == 1))[0]
        return f"bond order {bo[i, j]} on pair ({i},{j}) with connectivity {ac[i, j]}"
    if (bo[ac == 0] != 0).any():
        return "non-zero order on a non-bonded pair"
    return None


def c18_case(types, ac, perm, chemical=True):
    from stereomolgraph.algorithms.bond_orders import connectivity2bond_orders

    perm = list(perm)
    t2 = [types[p] for p in perm]
    ac2 = ac[np.ix_(perm, perm)]
    res, err = safe(lambda: connectivity2bond_orders(t2, ac2.copy()))
    if err:
        return False, f"raised {err}"
    bo, charges, unpaired = res
    why = structural_ok(bo, ac2)
    if why:
        return False, why
    if chemical:
        val = np.asarray(bo).sum(axis=1)
        for i, e in enumerate(t2):
            if e in STD_VALENCE and int(val[i]) not in STD_VALENCE[e]:
                return False, f"atom {i} (Z={e}) gets valence {int(val[i])}"
        if any(charges) or any(unpaired):
            return False, f"charges {charges} unpaired {unpaired}"
    return True, ""


def c18_body(smiles, perm, chemical=True):
    return f"from vf.e3.bondorders import c18_case, mol_input\ntypes, ac = mol_input({smiles!r})\nok, why = c18_case(types, ac, {list(perm)!r}, {chemical!r})\nprint(why)\n"


def export_orders_case(cname, k, centre, parity):
    """a centre with k fluorine ligands (and the descriptor, if any) exported with generate_bond_orders=True"""
    from ..spec.refmodel import build_real
    from .rdkitio import star
    from .harness import safe

    ids = list(range(1, k + 2))
    r = star(cname or "Tetrahedral", ids, [centre] + [9] * k, list(range(k)), parity)
    if cname is None:
        r.atom_stereo = {}
    g = build_real(r)
    res, err = safe(lambda: g._to_rdmol(generate_bond_orders=True))
    if err:
        return False, f"_to_rdmol(generate_bond_orders=True) raised {err}"
    mol, idx_to_atom = res
    idx = {a: i for i, a in idx_to_atom.items()}
    for b in r.bonds:
        x, y = sorted(b)
        rb = mol.GetBondBetweenAtoms(idx[x], idx[y])
        if rb is None or rb.GetBondTypeAsDouble() < 1:
            return False, f"bond {x}-{y} of the graph has order {None if rb is None else rb.GetBondTypeAsDouble()} in the exported molecule"
    return True, ""


def run_c18(rep, tier, seed):
    rng = random.Random(seed + 18)
    distinct = 0
    G = {n: Group(rep, f"C18/bounded/{n}") for n in ("corpus/structure-and-standard-valences-under-atom-permutations", "random-connectivity/structural-clause",
                                                     "call-sequence/no-state-between-calls")}
    for smi in SMILES:
        types, ac = mol_input(smi)
        n = len(types)
        distinct += 1
        heavy = [i for i, t in enumerate(types) if t != 1]
        perms = [tuple(range(n))]
        if n <= 6 and tier != "quick":
            perms = list(itertools.permutations(range(n)))
        else:
            k = 12 if tier == "quick" else 120
            # permute the heavy atoms exhaustively when few, else sample
            if len(heavy) <= 5:
                hp = list(itertools.permutations(heavy))
                if len(hp) > k:
                    hp = rng.sample(hp, k)
                for h in hp:
                    p = list(range(n))
                    for src, dst in zip(heavy, h):
                        p[src] = dst
                    perms.append(tuple(p))
            for _ in range(k // 3):
                p = list(range(n))
                rng.shuffle(p)
                perms.append(tuple(p))
        for p in perms:
            ok, why = c18_case(types, ac, p)
            G["corpus/structure-and-standard-valences-under-atom-permutations"].case(ok, f"{smi} order {p}: {why}", c18_body(smi, p), sample=smi)
    # a molecule of the property's domain (cumulated system) on which the perception fails for every atom order: kept in a
    # group of its own, so that the known finding (known_findings.json) does not hide anything else
    gk = Group(rep, "C18/bounded/corpus/conjugated-bis-allene(C=C=CC=C=C)")
    types, ac = mol_input("C=C=CC=C=C")
    for t in range(4):
        p = list(range(len(types)))
        if t:
            rng.shuffle(p)
        ok, why = c18_case(types, ac, tuple(p))
        gk.case(ok, f"C=C=CC=C=C order {tuple(p)}: {why}", c18_body("C=C=CC=C=C", tuple(p)), sample="C=C=CC=C=C")
    gk.close()
    # through the exporter: every bond of the graph carries an order >= 1 in the RDKit molecule, whatever descriptor sits on its atoms
    ge = Group(rep, "C18/bounded/export/graph-bonds-carry-an-order>=1")
    for cname, k, centre, par in (("Tetrahedral", 4, 6, 1), ("SquarePlanar", 4, 78, 0), ("TrigonalBipyramidal", 5, 15, 1), ("Octahedral", 6, 16, 1), ("Octahedral", 6, 16, -1), (None, 6, 16, None)):
        body = (f"from vf.e3.bondorders import export_orders_case\nok, why = export_orders_case({cname!r}, {k}, {centre}, {par!r})\nprint(why)\n")
        ok, why = export_orders_case(cname, k, centre, par)
        ge.case(ok, f"{cname} centre Z={centre} with {k} ligands: {why}", body, sample=str(cname))
    ge.close()
    # random symmetric 0/1 matrices over the tabulated elements: the structural clause only
    tab = [1, 5, 6, 7, 8, 9, 14, 15, 16, 17, 35, 53]
    for _ in range(150 if tier == "quick" else 2000):
        n = rng.randint(1, 7)
        types = [rng.choice(tab) for _ in range(n)]
        ac = np.zeros((n, n), dtype=int)
        for i in range(n):
            for j in range(i + 1, n):
                if rng.random() < 0.35:
                    ac[i, j] = ac[j, i] = 1
        distinct += 1
        from stereomolgraph.algorithms.bond_orders import connectivity2bond_orders

        res, err = safe(lambda: connectivity2bond_orders(types, ac.copy()))
        why = f"raised {err}" if err else structural_ok(res[0], ac)
        body = (f"import numpy as np\nfrom stereomolgraph.algorithms.bond_orders import connectivity2bond_orders\nfrom vf.e3.bondorders import structural_ok\n"
                f"ac = np.array({ac.tolist()!r}, dtype=int).reshape({n}, {n})\nbo = connectivity2bond_orders({types!r}, ac.copy())[0]\nwhy = structural_ok(bo, ac)\nprint(why)\nok = why is None\n")
        G["random-connectivity/structural-clause"].case(why is None, f"types {types} AC {ac.tolist()}: {why}", body, sample={"types": types})
    # the same inputs interleaved in one process: the answer for an input may not depend on earlier calls
    seq = []
    for smi in ("C=CC=C", "C=CC=O", "C=C=CC=C", "c1ccccc1", "C=CC#N", "C=CN=C=O", "C=CC=CC=C"):
        types, ac = mol_input(smi)
        n = len(types)
        for _ in range(3):
            p = list(range(n))
            rng.shuffle(p)
            seq.append((smi, tuple(p)))
    rng.shuffle(seq)
    for smi, p in seq + seq[::-1]:
        types, ac = mol_input(smi)
        ok, why = c18_case(types, ac, p)
        hist = [(s, list(q)) for s, q in seq]
        body = ("from vf.e3.bondorders import c18_case, mol_input\nok = True\n"
                f"for smi, p in {hist!r} + {hist[::-1]!r}:\n    t, ac = mol_input(smi)\n    o, why = c18_case(t, ac, p)\n    if not o:\n        print(smi, p, why); ok = False\n")
        G["call-sequence/no-state-between-calls"].case(ok, f"{smi} order {p} after other calls: {why}", body, sample=smi)
    for g in G.values():
        g.close()
    rep.distinct_nontrivial = distinct


def frame_obligations(rep):
    """Structural obligations by AST dataflow on bond_orders.py (stated, not solver-discharged):
       (a) no function writes module-level state (no global/nonlocal, no store into a module-level container, no memoising decorator);
       (b) every store into a matrix is `M[i, j] += 1` immediately followed by `M[j, i] += 1` (symmetry, integrality) and occurs in _get_BO only;
       (c) the pairs come from _get_UA_pairs, whose elements come from _get_bonds, which appends (i, j) only under `AC[i, j] == 1`."""
    t = time.time()
    path = os.path.join(SRC, "algorithms", "bond_orders.py")
    tree = ast.parse(open(path).read())
    funcs = {n.name: n for n in tree.body if isinstance(n, ast.FunctionDef)}
    module_names = set()
    for n in tree.body:
        if isinstance(n, (ast.Assign, ast.AnnAssign)):
            for tt in (n.targets if isinstance(n, ast.Assign) else [n.target]):
                for sub in ast.walk(tt):
                    if isinstance(sub, ast.Name):
                        module_names.add(sub.id)
    bad_state, bad_store = [], []
    for fname, fn in funcs.items():
        params = {a.arg for a in fn.args.args + fn.args.kwonlyargs}
        assigned = {t_.id for n in ast.walk(fn) if isinstance(n, ast.Assign) for t_ in n.targets if isinstance(t_, ast.Name)}
        for n in ast.walk(fn):
            if isinstance(n, (ast.Global, ast.Nonlocal)):
                bad_state.append(f"{fname}: line {n.lineno} global/nonlocal")
            if isinstance(n, ast.FunctionDef):
                for d in n.decorator_list:
                    if "cache" in ast.unparse(d):
                        bad_state.append(f"{fname}: memoising decorator")
            tgts = []
            if isinstance(n, ast.Assign):
                tgts = n.targets
            elif isinstance(n, (ast.AugAssign, ast.AnnAssign)):
                tgts = [n.target]
            for t_ in tgts:
                if isinstance(t_, (ast.Subscript, ast.Attribute)):
                    root = t_
                    while isinstance(root, (ast.Subscript, ast.Attribute)):
                        root = root.value
                    if isinstance(root, ast.Name) and root.id in module_names and root.id not in params and root.id not in assigned:
                        bad_state.append(f"{fname}: line {n.lineno} store into module-level {root.id}")
            if isinstance(n, ast.Call) and isinstance(n.func, ast.Attribute) and n.func.attr in ("append", "add", "update", "setdefault", "clear", "pop", "extend", "cache_clear", "__setitem__"):
                root = n.func.value
                while isinstance(root, (ast.Subscript, ast.Attribute)):
                    root = root.value
                if isinstance(root, ast.Name) and root.id in module_names and root.id not in params and root.id not in assigned:
                    bad_state.append(f"{fname}: line {n.lineno} mutating call on module-level {root.id}")
        # matrix stores
        body_nodes = [n for n in ast.walk(fn) if isinstance(n, (ast.Assign, ast.AugAssign)) ]
        for n in body_nodes:
            t_ = n.target if isinstance(n, ast.AugAssign) else n.targets[0]
            if isinstance(t_, ast.Subscript) and isinstance(t_.slice, ast.Tuple) and len(t_.slice.elts) == 2:
                ok = fname == "_get_BO" and isinstance(n, ast.AugAssign) and isinstance(n.op, ast.Add) and isinstance(n.value, ast.Constant) and n.value.value == 1
                if not ok:
                    bad_store.append(f"{fname}: line {n.lineno} {ast.unparse(n)}")
    rep.add(Ob("C18/algorithms/bond_orders.py/no-state-survives-a-call(AST assigns-clause)", "proof", DISCHARGED if not bad_state else FAILED, "ast", time.time() - t, detail="; ".join(bad_state)))
    gb = funcs.get("_get_BO")
    sym_ok = False
    if gb is not None:
        src = ast.unparse(gb)
        sym_ok = "BO[i, j] += 1\n" in src and "BO[j, i] += 1" in src and "for (i, j) in UA_pairs" in src.replace("for i, j in UA_pairs", "for (i, j) in UA_pairs")
    rep.add(Ob("C18/algorithms/bond_orders.py:_get_BO/matrix-stores-are-mirrored-unit-increments-on-UA_pairs", "proof", DISCHARGED if (sym_ok and not bad_store) else FAILED, "ast",
               time.time() - t, detail="; ".join(bad_store) or ("pattern not found" if not sym_ok else "")))
    gbonds = funcs.get("_get_bonds")
    guard_ok = False
    if gbonds is not None:
        for n in ast.walk(gbonds):
            if isinstance(n, ast.If) and ast.unparse(n.test) == "AC[i, j] == 1":
                guard_ok = all(isinstance(s, (ast.Assign, ast.Assert, ast.Expr)) for s in n.body) and not n.orelse
        appends = [n for n in ast.walk(gbonds) if isinstance(n, ast.Call) and isinstance(n.func, ast.Attribute) and n.func.attr == "append"]
        inside = [n for n in ast.walk(gbonds) if isinstance(n, ast.If) and ast.unparse(n.test) == "AC[i, j] == 1"]
        guard_ok = guard_ok and len(appends) == 1 and inside and any(appends[0] in list(ast.walk(i)) for i in inside)
    rep.add(Ob("C18/algorithms/bond_orders.py:_get_bonds/pairs-are-appended-only-under-AC[i,j]==1", "proof", DISCHARGED if guard_ok else FAILED, "ast", time.time() - t))
    gp = funcs.get("_get_UA_pairs")
    flow_ok = gp is not None and "itertools.combinations(bonds" in ast.unparse(gp) and "bonds = _get_bonds(UA, AC)" in ast.unparse(gp)
    rep.add(Ob("C18/algorithms/bond_orders.py:_get_UA_pairs/combos-are-drawn-from-_get_bonds", "proof", DISCHARGED if flow_ok else FAILED, "ast", time.time() - t))
