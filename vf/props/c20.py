"""C20 - bounded contracts on the coordinate side (vf/e3/geom.py) + E2 obligations (vf/e2) where available."""
import time

from ..core import Report
from ..e3 import geom


def run(tier, seed):
    t0 = time.time()
    rep = Report("C20", tier, seed)
    rep.level = "exploration"
    geom.run_c20(rep, tier, seed)
    rep.rule = "idealised templates with noise / random point sets / repository XYZ data x rigid motions, reflections, atom permutations (seeded); distinct_nontrivial = distinct base geometries"
    rep.assumptions = ["bounded: only the enumerated geometries and transformations are covered", "general position: cases within 1e-6 (1e-5 far from the origin) of a bonding threshold are skipped"]
    return rep, t0
