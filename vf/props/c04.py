"""C04 - stereodescriptor identity is spatial identity.  Proof level (E1): every obligation is a VC
generated from the real AST of stereodescriptors.py against the oracle groups of spec/groups.py."""
from __future__ import annotations

import itertools
import random
import time

import z3

from ..core import DISCHARGED, ERROR, FAILED, UNDECIDED, Ob, Report, src_info
from ..pyvc.interp import Interp, Obj, OutOfSubset, PyRaise
from ..pyvc.values import And_, B, FSet, HashVal, MSet, NotImpl, Not_, OI, Or_, is_sym, veq
from ..pyvc.world import World
from ..spec.groups import CENTRES, CHIRAL, FIGS, PARITIES, groups, spec_eq_concrete

REL = "stereodescriptors.py"
CLASSES = list(FIGS)


# ----------------------------------------------------------------------------- symbolic inputs
def sym_tuple(prefix, n, centres, placeholders=True, all_free=False):
    out = []
    for i in range(n):
        if all_free:
            out.append(OI(z3.Bool(f"{prefix}n{i}"), z3.Int(f"{prefix}{i}")))
        elif i in centres or not placeholders:
            out.append(OI(False, z3.Int(f"{prefix}{i}")))
        else:
            out.append(OI(z3.Bool(f"{prefix}n{i}"), z3.Int(f"{prefix}{i}")))
    return tuple(out)


def valid_descr(t):
    """non-placeholder entries pairwise distinct"""
    cs = []
    for i in range(len(t)):
        for j in range(i + 1, len(t)):
            cs.append(Or_(t[i].isnone, t[j].isnone, t[i].val != t[j].val))
    return And_(*cs)


def spec_eq(cname, s, p, o, q):
    """z3 formula of the property's equality (spec), over symbolic tuples"""
    if p is None or q is None:
        return FSet(s).eq(FSet(o))
    Gp, Gm = groups(cname)
    if p == q:
        G = Gp
    elif p == -q and p != 0:
        G = Gm
    else:
        return False
    return Or_(*[And_(*[veq(o[i], s[g[i]]) for i in range(len(s))]) for g in sorted(G)])


def model_tuple(m, t):
    out = []
    for x in t:
        isn = x.isnone if isinstance(x.isnone, bool) else z3.is_true(m.eval(x.isnone, True))
        if isn:
            out.append(None)
        else:
            v = x.val if isinstance(x.val, int) else m.eval(x.val, True).as_long()
            out.append(v)
    return tuple(out)


def solve(fs, timeout_ms):
    s = z3.Solver()
    s.set("timeout", timeout_ms)
    for f in fs:
        s.add(B(f))
    t = time.time()
    r = s.check()
    return r, s, time.time() - t


# ----------------------------------------------------------------------------- obligations
def mkdescr(world, cname, atoms, parity):
    return Obj(world.cls(cname), {"atoms": atoms, "parity": parity})


def ob_eq(rep, world, cname, p, q, timeout):
    cls = world.cls(cname)
    n = len(FIGS[cname])
    s = sym_tuple("s", n, CENTRES[cname])
    o = sym_tuple("o", n, CENTRES[cname], all_free=True)
    pre = valid_descr(s)
    spec = spec_eq(cname, s, p, o, q)
    it = Interp(world)

    def thunk(interp, handles):
        A = mkdescr(world, cname, s, p)
        Bd = mkdescr(world, cname, o, q)
        handles["A"], handles["B"] = A, Bd
        c, m = cls.find("__eq__")
        return interp.call_function(c.module, m[1], [A, Bd], {}, c, A)

    base = f"C04/{REL}:_StereoMixin.__eq__/{cname}/p={p},q={q}"
    try:
        paths = it.run(thunk)
    except OutOfSubset as e:
        rep.add(Ob(base, "proof", ERROR, detail=f"out of subset: {e}"))
        return
    if not paths:
        rep.add(Ob(base, "proof", ERROR, detail="no paths"))
    for i, path in enumerate(paths):
        name = f"{base}#path{i}"
        kind, v = path.outcome
        if kind == "raise":
            bad = True
            what = f"raises {v}"
        elif v is NotImpl:
            bad = True
            what = "returns NotImplemented"
        else:
            vv = v if is_sym(v) else bool(v) if isinstance(v, bool) else None
            if vv is None:
                rep.add(Ob(name, "proof", ERROR, detail=f"non-boolean result {v!r}"))
                continue
            bad = Not_(veq_bool(vv, spec))
            what = "result differs from spatial identity"
        r, solver, dt = solve([pre, *path.pc, bad], timeout)
        if r == z3.unsat:
            rep.add(Ob(name, "proof", DISCHARGED, "z3", dt))
        elif r == z3.sat:
            m = solver.model()
            cs, co = model_tuple(m, s), model_tuple(m, o)
            exp = spec_eq_concrete(cname, cs, p, co, q)
            code = replay_eq(cname, cs, p, co, q, exp)
            rep.add(Ob(name, "proof", FAILED, "z3", dt, detail=f"{what}: {cname}({cs},{p}) == {cname}({co},{q}); spec says {exp}",
                       replay_code=code, witness={"cls": cname, "s": cs, "p": p, "o": co, "q": q, "expected": exp}))
        else:
            rep.add(Ob(name, "proof", UNDECIDED, "z3", dt, detail=solver.reason_unknown()))


def veq_bool(a, b):
    if isinstance(a, bool) and isinstance(b, bool):
        return a == b
    return B(a) == B(b)


def replay_eq(cname, s, p, o, q, exp):
    return f"""from stereomolgraph.stereodescriptors import {cname}
a = {cname}({s!r}, {p!r}); b = {cname}({o!r}, {q!r})
expected = {exp!r}   # spatial identity according to the oracle group of the idealised figure
try:
    got = (a == b)
except Exception as e:
    print('raised', type(e).__name__, e); sys.exit(1)
print(a, '==', b, '->', got, 'expected', expected)
sys.exit(0 if got is expected else 1)
"""


def ob_tables(rep, world, cname):
    cls = world.cls(cname)
    Gp, Gm = groups(cname)
    t = time.time()
    table = cls.consts.get("PERMUTATION_GROUP")
    inv = cls.consts.get("inversion", "missing")
    name = f"C04/{REL}:{cname}.PERMUTATION_GROUP/equals-proper-rotation-group"
    if table is None:
        rep.add(Ob(name, "proof", ERROR, detail="PERMUTATION_GROUP is not a literal"))
        return
    tset = set(tuple(x) for x in table)
    if tset == Gp and len(tset) == len(table):
        rep.add(Ob(name, "proof", DISCHARGED, "enum", time.time() - t))
    else:
        # find a concrete failing comparison
        n = len(FIGS[cname])
        s = tuple(range(10, 10 + n))
        wrong = sorted(tset ^ Gp)
        g = wrong[0] if wrong else sorted(tset)[0]
        o = tuple(s[g[i]] for i in range(n))
        par = 1 if CHIRAL[cname] else 0
        exp = spec_eq_concrete(cname, s, par, o, par)
        rep.add(Ob(name, "proof", FAILED, "enum", time.time() - t,
                   detail=f"table differs from the proper rotation group of the figure: extra {sorted(tset - Gp)}, missing {sorted(Gp - tset)}",
                   replay_code=replay_eq(cname, s, par, o, par, exp), witness={"cls": cname, "s": s, "o": o}))
    name = f"C04/{REL}:{cname}.inversion/is-improper"
    t = time.time()
    if CHIRAL[cname]:
        ok = inv not in (None, "missing") and tuple(inv) in Gm
    else:
        ok = inv is None and Gp == Gm
    if ok:
        rep.add(Ob(name, "proof", DISCHARGED, "enum", time.time() - t))
    else:
        n = len(FIGS[cname])
        s = tuple(range(10, 10 + n))
        code = None
        if CHIRAL[cname] and inv not in (None, "missing"):
            # inverted ordering with opposite parity must be equal
            o = tuple(s[i] for i in inv)
            exp = spec_eq_concrete(cname, s, 1, o, -1)
            code = replay_eq(cname, s, 1, o, -1, exp)
        rep.add(Ob(name, "proof", FAILED, "enum", time.time() - t, detail=f"inversion={inv!r} is not an improper symmetry / class chirality mismatch",
                   replay_code=code))


def run_method(world, cname, atoms, parity, method, extra=()):
    cls = world.cls(cname)
    it = Interp(world)

    def thunk(interp, handles):
        A = mkdescr(world, cname, atoms, parity)
        handles["A"] = A
        c, m = cls.find(method)
        return interp.call_function(c.module, m[1], [A, *extra], {}, c, A)

    return it.run(thunk)


def ob_hash(rep, world, cname, p, q, timeout):
    n = len(FIGS[cname])
    s = sym_tuple("s", n, CENTRES[cname])
    o = sym_tuple("o", n, CENTRES[cname], all_free=True)
    pre = And_(valid_descr(s), valid_descr(o), spec_eq(cname, s, p, o, q))
    base = f"C04/{REL}:_StereoMixin.__hash__/{cname}/p={p},q={q}"
    try:
        ps = run_method(world, cname, s, p, "__hash__")
        po = run_method(world, cname, o, q, "__hash__")
    except OutOfSubset as e:
        rep.add(Ob(base, "proof", ERROR, detail=f"out of subset: {e}"))
        return
    k = 0
    for a in ps:
        for b in po:
            name = f"{base}#path{k}"
            k += 1
            if a.outcome[0] == "raise" or b.outcome[0] == "raise":
                bad = True
                what = "__hash__ raises"
            else:
                ha, hb = a.outcome[1], b.outcome[1]
                if not isinstance(ha, HashVal) or not isinstance(hb, HashVal):
                    rep.add(Ob(name, "proof", ERROR, detail="__hash__ does not return hash(...)"))
                    continue
                bad = Not_(veq(ha, hb))
                what = "equal descriptors, different hash arguments"
            r, solver, dt = solve([pre, *a.pc, *b.pc, bad], timeout)
            if r == z3.unsat:
                rep.add(Ob(name, "proof", DISCHARGED, "z3", dt))
            elif r == z3.sat:
                m = solver.model()
                cs, co = model_tuple(m, s), model_tuple(m, o)
                code = f"""from stereomolgraph.stereodescriptors import {cname}
a = {cname}({cs!r}, {p!r}); b = {cname}({co!r}, {q!r})
# the two descriptors denote the same spatial arrangement according to the oracle group
print(a, b, 'code ==', a == b, 'hash', hash(a), hash(b))
sys.exit(1 if hash(a) != hash(b) else 0)
"""
                rep.add(Ob(name, "proof", FAILED, "z3", dt, detail=f"{what}: {cname}({cs},{p}) vs {cname}({co},{q})", replay_code=code))
            else:
                rep.add(Ob(name, "proof", UNDECIDED, "z3", dt, detail=solver.reason_unknown()))


def ob_invert(rep, world, cname, p, timeout):
    n = len(FIGS[cname])
    s = sym_tuple("s", n, CENTRES[cname])
    pre = valid_descr(s)
    base = f"C04/{REL}:_StereoMixin.invert/{cname}/p={p}"
    cls = world.cls(cname)
    it = Interp(world)

    def thunk(interp, handles):
        A = mkdescr(world, cname, s, p)
        handles["A"] = A
        c, m = cls.find("invert")
        r1 = interp.call_function(c.module, m[1], [A], {}, c, A)
        handles["r1"] = r1
        if not isinstance(r1, Obj):
            return ("bad",)
        r2 = interp.call_function(c.module, m[1], [r1], {}, c, r1)
        handles["r2"] = r2
        # equality of the original with its inversion, through the real __eq__
        ce, me = cls.find("__eq__")
        e = interp.call_function(ce.module, me[1], [A, r1], {}, ce, A)
        handles["eq"] = e
        return ("ok",)

    try:
        paths = it.run(thunk)
    except OutOfSubset as e:
        rep.add(Ob(base, "proof", ERROR, detail=f"out of subset: {e}"))
        return
    for i, path in enumerate(paths):
        h = path.handles
        conds = {}
        if path.outcome[0] == "raise" or path.outcome[1] == ("bad",):
            conds["no-exception"] = True
        else:
            A, r1, r2, e = h["A"], h["r1"], h["r2"], h["eq"]
            conds["original-unmodified"] = Not_(And_(veq(A.fields["atoms"], s), veq(A.fields["parity"], p)))
            if p in (1, -1):
                conds["parity-flipped-atoms-kept"] = Not_(And_(veq(r1.fields["atoms"], s), veq(r1.fields["parity"], -p), r1.cls is cls))
                # d == d.invert() must be what the spec says (False unless placeholders make the figure achiral)
                conds["inverse-equality-is-spatial"] = Not_(veq_bool(e if (isinstance(e, bool) or is_sym(e)) else False, spec_eq(cname, s, p, s, -p)))
                # with at most one placeholder a chiral descriptor differs from its inversion
                nn = [x.isnone for x in s]
                atmost1 = And_(*[Or_(Not_(nn[i]), Not_(nn[j])) for i in range(len(nn)) for j in range(i + 1, len(nn))])
                conds["inverse-not-equal"] = And_(atmost1, e if (isinstance(e, bool) or is_sym(e)) else True)
            else:
                conds["achiral-identity"] = not (r1 is A)
            conds["involution"] = Not_(And_(veq(r2.fields["atoms"], s), veq(r2.fields["parity"], p), r2.cls is cls))
        for cn, bad in conds.items():
            name = f"{base}/{cn}#path{i}"
            r, solver, dt = solve([pre, *path.pc, bad], timeout)
            if r == z3.unsat:
                rep.add(Ob(name, "proof", DISCHARGED, "z3", dt))
            elif r == z3.sat:
                cs = model_tuple(solver.model(), s)
                exp_inv_eq = spec_eq_concrete(cname, cs, p, cs, -p) if p in (1, -1) else True
                code = f"""from stereomolgraph.stereodescriptors import {cname}
a = {cname}({cs!r}, {p!r}); b = a.invert(); c = b.invert()
print(a, b, c, a == b)
ok = (a.atoms, a.parity) == ({cs!r}, {p!r}) and (c.atoms, c.parity) == (a.atoms, a.parity) and type(c) is type(a)
if {p!r} in (1, -1): ok = ok and (a == b) is {exp_inv_eq!r} and b.parity == -a.parity and b.atoms == a.atoms
else: ok = ok and b is a
sys.exit(0 if ok else 1)
"""
                rep.add(Ob(name, "proof", FAILED, "z3", dt, detail=f"invert contract clause {cn} fails for {cname}({cs},{p})", replay_code=code))
            else:
                rep.add(Ob(name, "proof", UNDECIDED, "z3", dt, detail=solver.reason_unknown()))


def ob_equivalence(rep, world, cname, timeout, part):
    """Lemmas over the spec relation (which obligation 1 proves the code computes):
    reflexive, symmetric, transitive on specified parities."""
    n = len(FIGS[cname])
    a = sym_tuple("a", n, CENTRES[cname])
    b = sym_tuple("b", n, CENTRES[cname])
    c = sym_tuple("c", n, CENTRES[cname])
    pre = And_(valid_descr(a), valid_descr(b), valid_descr(c))
    pars = [p for p in PARITIES[cname] if p is not None]
    base = f"C04/lemma/{cname}"
    if part != "rs":
        p, q, w = part
        r, solver, dt = solve([pre, spec_eq(cname, a, p, b, q), spec_eq(cname, b, q, c, w), Not_(spec_eq(cname, a, p, c, w))], timeout)
        rep.add(Ob(f"{base}/transitive/p={p},q={q},r={w}", "proof", DISCHARGED if r == z3.unsat else (FAILED if r == z3.sat else UNDECIDED), "z3", dt))
        return
    for p in pars:
        r, solver, dt = solve([pre, Not_(spec_eq(cname, a, p, a, p))], timeout)
        rep.add(Ob(f"{base}/reflexive/p={p}", "proof", DISCHARGED if r == z3.unsat else (FAILED if r == z3.sat else UNDECIDED), "z3", dt))
    for p, q in itertools.product(pars, pars):
        r, solver, dt = solve([pre, spec_eq(cname, a, p, b, q), Not_(spec_eq(cname, b, q, a, p))], timeout)
        rep.add(Ob(f"{base}/symmetric/p={p},q={q}", "proof", DISCHARGED if r == z3.unsat else (FAILED if r == z3.sat else UNDECIDED), "z3", dt))


def ob_frame(rep, world):
    """__eq__, __hash__, invert, _perm_atoms, _inverted_atoms write nothing but locals and fresh objects
    (no class-level or instance state survives a call): syntactic assigns-clause check on the real AST."""
    import ast

    mod = world.module(REL)
    for cname, cls in mod.classes.items():
        if cname != "_StereoMixin" and cname not in CLASSES:
            continue
        for mname, node in cls.methods.items():
            if mname in ("__init__",):
                continue
            name = f"C04/{REL}:{cname}.{mname}/frame-empty"
            bad = []
            for n in ast.walk(node):
                tgts = []
                if isinstance(n, ast.Assign):
                    tgts = n.targets
                elif isinstance(n, (ast.AugAssign, ast.AnnAssign)):
                    tgts = [n.target]
                elif isinstance(n, ast.Delete):
                    tgts = n.targets
                elif isinstance(n, (ast.Global, ast.Nonlocal)):
                    bad.append(f"line {n.lineno}: global/nonlocal")
                for t in tgts:
                    for sub in ast.walk(t):
                        if isinstance(sub, (ast.Attribute, ast.Subscript)) and isinstance(sub.ctx, (ast.Store, ast.Del)):
                            bad.append(f"line {sub.lineno}: store to {ast.unparse(sub)}")
                if isinstance(n, ast.Call) and isinstance(n.func, ast.Attribute) and n.func.attr in (
                    "append", "add", "update", "setdefault", "pop", "clear", "extend", "insert", "remove", "discard", "popitem", "__setitem__", "__setattr__", "cache_clear"):
                    # a mutating call is fine on a local that was created in this function
                    root = n.func.value
                    while isinstance(root, (ast.Attribute, ast.Subscript)):
                        root = root.value
                    if not (isinstance(root, ast.Name) and _is_local_fresh(node, root.id)):
                        bad.append(f"line {n.lineno}: mutating call {ast.unparse(n.func)}")
            for d in node.decorator_list:
                dn = ast.unparse(d)
                if "cache" in dn:
                    bad.append(f"memoising decorator {dn}")
            if bad:
                rep.add(Ob(name, "proof", FAILED, "ast", 0.0, detail="; ".join(bad)))
            else:
                rep.add(Ob(name, "proof", DISCHARGED, "ast", 0.0))


def _is_local_fresh(fn, name):
    import ast

    if name in ("self", "other", "cls"):
        return False
    for n in ast.walk(fn):
        if isinstance(n, ast.Assign):
            for t in n.targets:
                if isinstance(t, ast.Name) and t.id == name:
                    v = n.value
                    if isinstance(v, (ast.List, ast.Dict, ast.Set, ast.ListComp, ast.SetComp, ast.DictComp, ast.Tuple)):
                        return True
                    if isinstance(v, ast.Call) and isinstance(v.func, ast.Name) and v.func.id in ("set", "list", "dict", "tuple", "frozenset", "Counter"):
                        return True
    return False


# ----------------------------------------------------------------------------- bounded companion + cross validation
def sequence_check(rep, seed, n_rounds):
    """Bounded (E3): a long random sequence of comparisons/hashes in ONE interpreter process against the
    oracle - catches state carried between calls, which a per-call contract cannot see."""
    import importlib

    sd = importlib.import_module("stereomolgraph.stereodescriptors")
    rng = random.Random(seed)
    t = time.time()
    evals = 0
    fail = None
    log = []
    pool = {}
    for _ in range(n_rounds):
        cname = rng.choice(CLASSES)
        n = len(FIGS[cname])
        Gp, Gm = groups(cname)
        if pool.get(n) and rng.random() < 0.35:
            s = rng.choice(pool[n])  # re-use a tuple seen before (possibly by another class of the same length)
            if any(s[i] is None for i in CENTRES[cname]):
                continue
        else:
            base = rng.sample(range(-3, 40), n)
            s = list(base)
            for i in range(n):
                if i not in CENTRES[cname] and rng.random() < 0.15:
                    s[i] = None
            s = tuple(s)
            pool.setdefault(n, []).append(s)
            pool[n] = pool[n][-30:]
        p = rng.choice(PARITIES[cname])
        mode = rng.random()
        q = rng.choice(PARITIES[cname])
        if mode < 0.4:
            g = rng.choice(sorted(Gp | Gm))
            o = tuple(s[g[i]] for i in range(n))
        elif mode < 0.7:
            perm = list(range(n))
            rng.shuffle(perm)
            o = tuple(s[i] for i in perm)
        elif mode < 0.85:
            o = s
        else:
            o = list(s)
            o[rng.randrange(n)] = rng.randrange(50, 60)
            o = tuple(o)
        # use any class of the same length too (state leaking between classes)
        ccls = getattr(sd, cname)
        exp = spec_eq_concrete(cname, s, p, o, q)
        try:
            a, b = ccls(s, p), ccls(o, q)
            got = a == b
            ha, hb = hash(a), hash(b)
        except Exception as e:  # noqa
            got = f"raised {type(e).__name__}"
            ha = hb = None
        evals += 1
        log.append((cname, s, p, o, q))
        ok = got is exp
        if ok and exp and (p is not None) == (q is not None) and ha != hb:
            ok = False
        if not ok:
            fail = (cname, s, p, o, q, exp, got)
            break
    name = f"C04/bounded/sequence-of-comparisons/seed={seed}"
    if fail is None:
        rep.add(Ob(name, "bounded", DISCHARGED, "exec", time.time() - t, evaluations=evals))
    else:
        cname, s, p, o, q, exp, got = fail
        code = "from stereomolgraph import stereodescriptors as sd\nhist = " + repr(log) + f"""
from itertools import islice
bad = None
for cname, s, p, o, q in hist:
    a, b = getattr(sd, cname)(s, p), getattr(sd, cname)(o, q)
    try: r = (a == b); hash(a); hash(b)
    except Exception as e: r = 'raised ' + type(e).__name__
    last = (a, b, r)
print('last comparison', last, 'expected', {exp!r})
sys.exit(0 if last[2] is {exp!r} else 1)
"""
        rep.add(Ob(name, "bounded", FAILED, "exec", time.time() - t, evaluations=evals,
                   detail=f"after {evals} calls: {cname}({s},{p}) == {cname}({o},{q}) gave {got}, oracle {exp}", replay_code=code))
    return evals


def hash_agreement_small_ids(rep):
    """Bounded (E3): equal descriptors hash equal, for identifier tuples that contain 0 (falsy) next to one or two placeholders
    at every position, and every proper symmetry operation of the class (exhaustive over these)."""
    import importlib
    import itertools

    sd = importlib.import_module("stereomolgraph.stereodescriptors")
    t = time.time()
    evals, fail = 0, None
    for cname in CLASSES:
        n = len(FIGS[cname])
        Gp, Gm = groups(cname)
        free = [i for i in range(n) if i not in CENTRES[cname]]
        for k_none in (1, 2):
            for none_pos in itertools.combinations(free, k_none):
                for zero_pos in [i for i in range(n) if i not in none_pos]:
                    ids = iter(range(1, n + 1))
                    s = tuple(None if i in none_pos else (0 if i == zero_pos else next(ids)) for i in range(n))
                    for p in [q for q in PARITIES[cname] if q is not None]:
                        for g in sorted(Gp):
                            o = tuple(s[g[i]] for i in range(n))
                            a, b = getattr(sd, cname)(s, p), getattr(sd, cname)(o, p)
                            evals += 1
                            try:
                                bad = (a == b) is not True or hash(a) != hash(b)
                            except Exception as e:  # noqa
                                bad = True
                            if bad and fail is None:
                                fail = (cname, s, o, p)
    name = "C04/bounded/equal-descriptors-hash-equal/identifier-0-next-to-placeholders"
    if fail is None:
        rep.add(Ob(name, "bounded", DISCHARGED, "exec", time.time() - t, evaluations=evals))
    else:
        cname, s_, o_, p_ = fail
        code = (f"from stereomolgraph import stereodescriptors as sd\na, b = sd.{cname}({s_!r}, {p_!r}), sd.{cname}({o_!r}, {p_!r})\nprint(a, b, a == b, hash(a), hash(b))\n"
                "ok = (a == b) is True and hash(a) == hash(b)\nprint('property holds on this case' if ok else 'VIOLATION reproduced')\nsys.exit(0 if ok else 1)\n")
        rep.add(Ob(name, "bounded", FAILED, "exec", time.time() - t, evaluations=evals,
                   detail=f"{cname}({s_},{p_}) and its image {cname}({o_},{p_}) under a symmetry operation of the class: equal but hashes differ (or not equal)", replay_code=code))
    return evals


def cross_validate(rep, world, seed, n):
    rep.traces_validated = 0
    """CPython cross-validation of the encoding: on random concrete inputs the symbolic path whose
    condition holds must predict what the real class returns."""
    import importlib

    sd = importlib.import_module("stereomolgraph.stereodescriptors")
    rng = random.Random(seed + 1)
    agree = 0
    t = time.time()
    for cname in CLASSES:
        cls = world.cls(cname)
        nn = len(FIGS[cname])
        Gp, Gm = groups(cname)
        for p, q in itertools.product(PARITIES[cname], PARITIES[cname]):
            s = sym_tuple("s", nn, CENTRES[cname], all_free=True)
            o = sym_tuple("o", nn, CENTRES[cname], all_free=True)
            it = Interp(world)

            def thunk(interp, handles, s=s, o=o, p=p, q=q):
                A = mkdescr(world, cname, s, p)
                Bd = mkdescr(world, cname, o, q)
                c, m = cls.find("__eq__")
                return interp.call_function(c.module, m[1], [A, Bd], {}, c, A)

            paths = it.run(thunk)
            for _ in range(n):
                cs = rng.sample(range(0, 12), nn)
                if rng.random() < 0.3:
                    cs[rng.randrange(nn)] = None
                cs = tuple(cs)
                if rng.random() < 0.5:
                    g = rng.choice(sorted(Gp | Gm))
                    co = tuple(cs[g[i]] for i in range(nn))
                else:
                    co = list(cs)
                    rng.shuffle(co)
                    co = tuple(co)
                try:
                    real = getattr(sd, cname)(cs, p) == getattr(sd, cname)(co, q)
                except Exception as e:  # noqa
                    real = ("raise", type(e).__name__)
                subst = []
                for sym, conc in list(zip(s, cs)) + list(zip(o, co)):
                    subst.append((sym.isnone, z3.BoolVal(conc is None)))
                    subst.append((sym.val, z3.IntVal(conc if conc is not None else 0)))
                hit = None
                for path in paths:
                    if all(z3.is_true(z3.simplify(z3.substitute(B(c), *subst))) for c in path.pc):
                        hit = path
                        break
                if hit is None:
                    rep.add(Ob(f"C04/crossval/{cname}/p={p},q={q}", "bounded", ERROR, "exec", detail=f"no symbolic path for {cs},{co}"))
                    return agree
                k, v = hit.outcome
                if k == "raise":
                    pred = ("raise", v)
                else:
                    pred = v if isinstance(v, bool) else z3.is_true(z3.simplify(z3.substitute(B(v), *subst)))
                if pred != real:
                    rep.add(Ob(f"C04/crossval/{cname}/p={p},q={q}", "bounded", ERROR, "exec",
                               detail=f"encoding disagrees with CPython on {cname}({cs},{p}) == {cname}({co},{q}): symbolic {pred}, real {real}"))
                    return agree
                agree += 1
    rep.traces_validated += agree
    return agree


def run(tier, seed):
    t0 = time.time()
    rep = Report("C04", tier, seed)
    rep.level = "proof"
    world = World()
    timeout = 20000 if tier == "quick" else 120000
    for fn in ("_StereoMixin.__init__", "_StereoMixin._perm_atoms", "_StereoMixin.invert", "_StereoMixin._inverted_atoms",
               "_StereoMixin.__eq__", "_StereoMixin.__hash__") + tuple(CLASSES):
        rep.functions.append(src_info(REL, fn))
    tasks = []
    for cname in CLASSES:
        if cname not in world.classes:
            rep.add(Ob(f"C04/{REL}:{cname}", "proof", ERROR, detail="class missing"))
            continue
        tasks.append(("ob_tables", (cname,)))
        for p, q in itertools.product(PARITIES[cname], PARITIES[cname]):
            tasks.append(("ob_eq", (cname, p, q, timeout)))
        for p, q in itertools.product(PARITIES[cname], PARITIES[cname]):
            if (p is None) != (q is None):
                continue  # hash agreement between unspecified and specified parity is unsatisfiable by any implementation
            tasks.append(("ob_hash", (cname, p, q, timeout)))
        for p in PARITIES[cname]:
            tasks.append(("ob_invert", (cname, p, timeout)))
        pars = [p for p in PARITIES[cname] if p is not None]
        tasks.append(("ob_equivalence", (cname, timeout, "rs")))
        for trip in itertools.product(pars, pars, pars):
            tasks.append(("ob_equivalence", (cname, timeout, trip)))
    tasks.append(("ob_frame", ()))
    tasks.append(("cross_validate", (seed, 6 if tier == "quick" else 40)))
    from ..par import pmap
    nval = 0
    for obs, extra in pmap("vf.props.c04", tasks):
        rep.obs.extend(obs)
        nval += extra or 0
    rep.traces_validated = nval
    nseq = sequence_check(rep, seed, 4000 if tier == "quick" else 60000)
    nseq += hash_agreement_small_ids(rep)
    rep.trusted_base = [
        "pyvc encoding of CPython semantics for the constructs used (tuples, sets, frozenset, Counter, generator expressions, any/all, attribute lookup along the MRO); cross-validated against CPython on this run",
        "oracle groups computed numerically (Kabsch/SVD, tolerance 1e-8) from the idealised figures in vf/spec/groups.py",
        "builtin hash() treated as an uninterpreted function (equal arguments => equal hashes)",
        "z3 5.1",
    ]
    rep.assumptions = [
        "atom identifiers are ints or None; non-placeholder atoms of a descriptor are pairwise distinct; centre positions are never placeholders",
        "hash/eq agreement is demanded for pairs with both parities specified or both unspecified (a descriptor with unspecified parity equals descriptors of both chiralities, so agreement across the mix is unsatisfiable)",
        "frame-empty is a syntactic assigns-clause check (stores/mutating calls/memoising decorators) on the methods of stereodescriptors.py",
    ]
    rep.rule = ("per class x parity pair: one VC per symbolic execution path of the real __eq__/__hash__/invert over symbolic "
                "atom tuples; bounded companion: random comparison sequences in one process vs the oracle; "
                "nontrivial = distinct (class, parity pair, path) obligations")
    rep.distinct_nontrivial = len({o.name for o in rep.obs})
    rep.samples = [o.name for o in rep.obs[:: max(1, len(rep.obs) // 10)]][:10]
    rep.explanation = ("All clauses of C04 are VCs over symbolic identifiers discharged by z3 against oracle groups derived from 3-D figures; "
                       f"{nval} CPython traces validated the encoding; {nseq} sequenced comparisons are an additional bounded check for hidden state.")
    rep.exhaustive = True
    return rep, t0
