"""Replay of a failed obligation on the real code.  Run with /verif/.venv/bin/python.
Exits 1 when the violation reproduces on the tree under /repo, 0 otherwise.
obligation: C04/stereodescriptors.py:_StereoMixin._perm_atoms/frame-empty
line 126: store to self._perm_cache[self.atoms]
"""
import sys
sys.path.insert(0, '/repo/src')
# no failing input was found by the verifier; solver output follows
SOLVER_OUTPUT = ''
print('obligation', 'C04/stereodescriptors.py:_StereoMixin._perm_atoms/frame-empty', 'failed; no concrete input available')
print(SOLVER_OUTPUT)
sys.exit(1)
