"""Symbolic value model of pyvc (DESIGN 2.2).  Python ints are unbounded, so z3 Int is exact."""
from __future__ import annotations

import z3


def is_sym(x):
    return isinstance(x, z3.ExprRef)


def B(x):
    """python bool / z3 Bool -> z3 Bool"""
    if isinstance(x, bool):
        return z3.BoolVal(x)
    return x


def And_(*xs):
    out = []
    for x in xs:
        if x is True:
            continue
        if x is False:
            return False
        out.append(x)
    if not out:
        return True
    return out[0] if len(out) == 1 else z3.And(*out)


def Or_(*xs):
    out = []
    for x in xs:
        if x is False:
            continue
        if x is True:
            return True
        out.append(x)
    if not out:
        return False
    return out[0] if len(out) == 1 else z3.Or(*out)


def Not_(x):
    if isinstance(x, bool):
        return not x
    return z3.Not(x)


def Implies_(a, b):
    return Or_(Not_(a), b)


def Ite_(c, a, b):
    if c is True:
        return a
    if c is False:
        return b
    if isinstance(a, bool) and isinstance(b, bool):
        return Or_(And_(c, a), And_(Not_(c), b))
    return z3.If(c, B(a) if isinstance(a, bool) else a, B(b) if isinstance(b, bool) else b)


class OI:
    """Optional integer (descriptor atoms): None or an int, possibly symbolic."""

    __slots__ = ("isnone", "val")

    def __init__(self, isnone, val):
        self.isnone = isnone
        self.val = val

    def __repr__(self):
        return f"OI({self.isnone},{self.val})"


def oi_of(x):
    if isinstance(x, OI):
        return x
    if x is None:
        return OI(True, 0)
    return OI(False, x)


class NotImpl:
    """the NotImplemented singleton"""


class HashVal:
    """result of builtin hash(arg): an uninterpreted function of arg; equal args => equal hashes"""

    def __init__(self, arg):
        self.arg = arg


class FSet:
    """A set/frozenset whose candidate elements are a finite python list (duplicates allowed),
    each with a guard saying whether it is a member."""

    def __init__(self, elems, guards=None, frozen=False):
        self.elems = list(elems)
        self.guards = list(guards) if guards is not None else [True] * len(self.elems)
        self.frozen = frozen

    def contains(self, x):
        return Or_(*[And_(g, veq(e, x)) for e, g in zip(self.elems, self.guards)])

    def subset_of(self, other):
        return And_(*[Implies_(g, other.contains(e)) for e, g in zip(self.elems, self.guards)])

    def eq(self, other):
        return And_(self.subset_of(other), other.subset_of(self))

    def copy(self, frozen=None):
        return FSet(self.elems, self.guards, self.frozen if frozen is None else frozen)


class MSet:
    """A multiset over a finite list of elements: Counter(...) / Counter(...).items()"""

    def __init__(self, elems):
        self.elems = list(elems)

    def count(self, x):
        terms = [z3.If(B(veq(e, x)), 1, 0) for e in self.elems]
        return z3.Sum(terms) if terms else z3.IntVal(0)

    def eq(self, other):
        cands = self.elems + other.elems
        return And_(*[self.count(x) == other.count(x) for x in cands])


def veq(a, b):
    """Python `==` on the value model -> bool | z3 Bool."""
    if isinstance(a, OI) or isinstance(b, OI):
        if isinstance(a, (tuple, list, FSet, MSet)) or isinstance(b, (tuple, list, FSet, MSet)):
            return False
        a, b = oi_of(a), oi_of(b)
        both_none = And_(a.isnone, b.isnone)
        both_int = And_(Not_(a.isnone), Not_(b.isnone), _ieq(a.val, b.val))
        return Or_(both_none, both_int)
    if isinstance(a, (tuple, list)) and isinstance(b, (tuple, list)):
        if type(a) is not type(b) or len(a) != len(b):
            return False
        return And_(*[veq(x, y) for x, y in zip(a, b)])
    if isinstance(a, FSet) and isinstance(b, FSet):
        return a.eq(b)
    if isinstance(a, MSet) and isinstance(b, MSet):
        return a.eq(b)
    if isinstance(a, HashVal) and isinstance(b, HashVal):
        return veq(a.arg, b.arg)
    if hasattr(a, "sym_eq"):
        return a.sym_eq(b)
    if hasattr(b, "sym_eq"):
        return b.sym_eq(a)
    if is_sym(a) or is_sym(b):
        if a is None or b is None:
            return False
        if isinstance(a, (tuple, list, FSet, MSet, str)) or isinstance(b, (tuple, list, FSet, MSet, str)):
            return False
        return _ieq(a, b)
    if isinstance(a, (FSet, MSet, HashVal)) or isinstance(b, (FSet, MSet, HashVal)):
        return False
    return a == b


def _ieq(a, b):
    if isinstance(a, bool) and not is_sym(b):
        return a == b
    if is_sym(a) or is_sym(b):
        if is_sym(a) and is_sym(b) and a.sort() != b.sort():
            if z3.is_bool(a) and z3.is_int(b):
                return z3.If(a, 1, 0) == b
            if z3.is_int(a) and z3.is_bool(b):
                return a == z3.If(b, 1, 0)
            return False
        if is_sym(a) and z3.is_bool(a) and isinstance(b, int) and not isinstance(b, bool):
            return z3.If(a, 1, 0) == b
        if is_sym(b) and z3.is_bool(b) and isinstance(a, int) and not isinstance(a, bool):
            return z3.If(b, 1, 0) == a
        r = a == b
        return z3.simplify(r) if False else r
    return a == b


def truthy(x):
    """Python truth value of x -> bool | z3 Bool."""
    if isinstance(x, bool):
        return x
    if x is None:
        return False
    if is_sym(x):
        if z3.is_bool(x):
            return x
        if z3.is_int(x):
            return x != 0
        raise TypeError(f"truthiness of {x.sort()}")
    if isinstance(x, OI):
        return And_(Not_(x.isnone), Not_(_ieq(x.val, 0)))
    if isinstance(x, (tuple, list, str, dict, set, frozenset, range)):
        return len(x) > 0
    if isinstance(x, FSet):
        return Or_(*x.guards)
    if hasattr(x, "sym_truthy"):
        return x.sym_truthy()
    if isinstance(x, (int, float)):
        return x != 0
    return True
