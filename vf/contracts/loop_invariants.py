"""Side-car LOOP INVARIANTS (DESIGN 2.2 (b), Appendix A.1): keyed by (source file, Class.method, ordinal of the loop in
the method).  With an invariant a loop is verified for containers of ANY size:
    init   Inv(done = {})                                   obligation at loop entry
    step   Inv(done) and x in C \\ done  ==>  wp(body, Inv(done + {x}))   the body is executed ONCE on a generic element
    exit   Inv(done = C) is all that is known after the loop (everything the loop may modify is havocked)
`done` is the ghost set of elements already visited; the iteration order is left arbitrary.
Termination is not proved."""
from __future__ import annotations

import z3

from ..pyvc import graphmodel as GM
from ..pyvc import heap as H
from ..pyvc.heap import BondS, mkbond


def FA(vs, body, patterns=None):
    try:
        return z3.ForAll(vs, body, patterns=patterns) if patterns else z3.ForAll(vs, body)
    except z3.Z3Exception:
        return z3.ForAll(vs, body)


class LoopInv:
    modifies_dict_dom = ()   # dict types whose key sets the body may change
    modifies_dict_val = ()
    modifies_set = ()

    def inv(self, ctx, done):
        raise NotImplementedError


class MG_remove_atom_0(LoopInv):
    """for n in tuple(self._neighbors[atom]): self.remove_bond(atom, n)"""
    modifies_dict_dom = ("bonds",)
    modifies_set = ("iset",)

    def inv(self, ctx, done):
        v0, v = ctx.v_entry, ctx.view()
        a = H._int(ctx.fr.env["atom"])
        x, y = z3.Ints("lx ly")
        b = z3.Const("lb", BondS)
        other = z3.If(BondS.lo(b) == a, BondS.hi(b), BondS.lo(b))
        removed = z3.And(z3.Or(BondS.lo(b) == a, BondS.hi(b) == a), z3.Select(done, other))
        return [
            ("visited-are-neighbours", FA([x], z3.Implies(z3.Select(done, x), z3.Select(ctx.C, x)), patterns=[z3.Select(done, x)])),
            ("bonds-to-visited-neighbours-removed", FA([b], v.bond(b) == z3.And(v0.bond(b), z3.Not(removed)), patterns=[v.bond(b)])),
            ("neighbour-sets-follow", FA([x, y], z3.Implies(v0.atom(x), v.nbr(x, y) == z3.And(v0.nbr(x, y), z3.Not(z3.Or(z3.And(x == a, z3.Select(done, y)),
                                                                                                                      z3.And(y == a, z3.Select(done, x)))))),
                                                patterns=[v.nbr(x, y)])),
        ]


class SMG_remove_atom_0(LoopInv):
    """for a, atom_stereo in self._atom_stereo.copy().items(): if atom in atom_stereo.atoms: self.delete_atom_stereo(a)"""
    modifies_dict_dom = ("astereo",)

    def inv(self, ctx, done):
        v0, v = ctx.v_entry, ctx.view()
        a = H._int(ctx.fr.env["atom"])
        x = z3.Int("lx")
        return [
            ("visited-are-keys", FA([x], z3.Implies(z3.Select(done, x), z3.Select(ctx.C, x)), patterns=[z3.Select(done, x)])),
            ("visited-descriptors-mentioning-the-atom-deleted",
             FA([x], v.as_has(x) == z3.And(v0.as_has(x), z3.Not(z3.And(z3.Select(done, x), GM.d_mentions(v0.as_val(x), a)))), patterns=[v.as_has(x)])),
        ]


class SMG_remove_atom_1(LoopInv):
    """for bond, bond_stereo in self._bond_stereo.copy().items(): if atom in bond_stereo.atoms: self.delete_bond_stereo(bond)"""
    modifies_dict_dom = ("bstereo",)

    def inv(self, ctx, done):
        v0, v = ctx.v_entry, ctx.view()
        a = H._int(ctx.fr.env["atom"])
        b = z3.Const("lb", BondS)
        return [
            ("visited-are-keys", FA([b], z3.Implies(z3.Select(done, b), z3.Select(ctx.C, b)), patterns=[z3.Select(done, b)])),
            ("visited-descriptors-mentioning-the-atom-deleted",
             FA([b], v.bs_has(b) == z3.And(v0.bs_has(b), z3.Not(z3.And(z3.Select(done, b), GM.d_mentions(v0.bs_val(b), a)))), patterns=[v.bs_has(b)])),
        ]


class SCRG_remove_atom_1(LoopInv):
    """for key, change_dict in list(table.items()):   (table = atom change table, then bond change table)
           for change, stereo in list(change_dict.items()):
               if stereo is not None and atom in stereo.atoms: del change_dict[change]
           if not change_dict: del table[key]"""

    def setup(self, ctx, iterable):
        self.t = iterable.source.t  # D_ACHG or D_BCHG
        self.modifies_dict_dom = (self.t.name, "chg")

    def inv(self, ctx, done):
        v0, v = ctx.v_entry, ctx.view()
        a = H._int(ctx.fr.env["atom"])
        atomic = self.t is H.D_ACHG
        k = z3.Int("lk") if atomic else z3.Const("lkb", BondS)
        ko = z3.Const("lko", BondS) if atomic else z3.Int("lko")
        c = z3.Const("lc", H.ChgS)
        has0, has = (v0.ac_has, v.ac_has) if atomic else (v0.bc_has, v.bc_has)
        sh0, sh = (v0.ac_slot_has, v.ac_slot_has) if atomic else (v0.bc_slot_has, v.bc_slot_has)
        sl0 = v0.ac_slot if atomic else v0.bc_slot
        oh0, oh = (v0.bc_has, v.bc_has) if atomic else (v0.ac_has, v.ac_has)
        osh0, osh = (v0.bc_slot_has, v.bc_slot_has) if atomic else (v0.ac_slot_has, v.ac_slot_has)

        def survive(kk, cc):
            return z3.And(sh0(kk, cc), z3.Not(GM.d_mentions(H.ODescrS.dd(sl0(kk, cc)), a)))

        some = lambda kk: z3.Or(*[survive(kk, ch) for ch in (H.FORMED, H.FLEETING, H.BROKEN)])  # noqa
        return [
            ("visited-are-keys", FA([k], z3.Implies(z3.Select(done, k), z3.Select(ctx.C, k)), patterns=[z3.Select(done, k)])),
            ("visited-keys-without-surviving-change-deleted", FA([k], has(k) == z3.And(has0(k), z3.Or(z3.Not(z3.Select(done, k)), some(k))), patterns=[has(k)])),
            ("changes-mentioning-the-atom-deleted-under-visited-keys",
             FA([k, c], z3.Implies(has(k), sh(k, c) == z3.If(z3.Select(done, k), survive(k, c), sh0(k, c))), patterns=[sh(k, c)])),
            ("other-change-table-untouched", FA([ko, c], z3.And(oh(ko) == oh0(ko), z3.Implies(oh0(ko), osh(ko, c) == osh0(ko, c))), patterns=[osh(ko, c)])),
        ]


def _frame_other_refs(ctx, tname, ref, val=True):
    """the heap arrays of dict type tname agree with the loop-entry arrays at every reference but `ref`
    (quantifier-free: now == entry[ref := now[ref]], so that the feasibility pruning can use it)"""
    h = H.heap_of(ctx.interp)
    body = h.dom[tname] == z3.Store(ctx.h_entry.dom[tname], ref, z3.Select(h.dom[tname], ref))
    if val:
        body = z3.And(body, h.val[tname] == z3.Store(ctx.h_entry.val[tname], ref, z3.Select(h.val[tname], ref)))
    return body


class SMG_enantiomer_0(LoopInv):
    """for atom in self.atoms: if stereo := self.get_atom_stereo(atom): enantiomer.set_atom_stereo(stereo.invert())"""
    modifies_dict_dom = ("astereo",)
    modifies_dict_val = ("astereo",)

    def inv(self, ctx, done):
        e = ctx.fr.env["enantiomer"]
        v0 = ctx.v_entry                                   # self at loop entry (never modified)
        ve0 = GM.View(ctx.h_entry, e)                       # the copy at loop entry
        ve = GM.View(H.heap_of(ctx.interp).snapshot(), e)   # the copy now
        x = z3.Int("lx")
        osome = H.ODescrS.DSome
        view = lambda vv, xx: z3.If(vv.as_has(xx), osome(vv.as_val(xx)), H.ODescrS.DNone)  # noqa
        return [
            ("visited-are-atoms", FA([x], z3.Implies(z3.Select(done, x), z3.Select(ctx.C, x)), patterns=[z3.Select(done, x)])),
            ("visited-centres-inverted-others-as-copied",
             FA([x], view(ve, x) == z3.If(z3.And(z3.Select(done, x), v0.as_has(x)), osome(GM.d_invert(v0.as_val(x))), view(ve0, x)))),
            ("only-the-copy's-atom-stereo-table-is-written", _frame_other_refs(ctx, "astereo", e.fields["_atom_stereo"].ref)),
        ]


class SMG_enantiomer_1(LoopInv):
    """for bond, bond_stereo in self._bond_stereo.items(): enantiomer._bond_stereo[bond] = bond_stereo.invert()"""
    modifies_dict_dom = ("bstereo",)
    modifies_dict_val = ("bstereo",)

    def inv(self, ctx, done):
        e = ctx.fr.env["enantiomer"]
        v0 = ctx.v_entry
        ve0 = GM.View(ctx.h_entry, e)
        ve = GM.View(H.heap_of(ctx.interp).snapshot(), e)
        b = z3.Const("lb", BondS)
        osome = H.ODescrS.DSome
        view = lambda vv, bb: z3.If(vv.bs_has(bb), osome(vv.bs_val(bb)), H.ODescrS.DNone)  # noqa
        return [
            ("visited-are-keys", FA([b], z3.Implies(z3.Select(done, b), z3.Select(ctx.C, b)), patterns=[z3.Select(done, b)])),
            ("visited-bond-descriptors-inverted-others-as-copied",
             FA([b], view(ve, b) == z3.If(z3.Select(done, b), osome(GM.d_invert(v0.bs_val(b))), view(ve0, b)))),
            ("only-the-copy's-bond-stereo-table-is-written", _frame_other_refs(ctx, "bstereo", e.fields["_bond_stereo"].ref)),
        ]


def _inside(d, S):
    """every non-placeholder atom of descriptor d is a member of the set with membership array S"""
    return z3.And(*[z3.Or(i >= GM.d_len(d), H.OIntS.is_ONone(GM.d_slot(d, i)), z3.Select(S, H.OIntS.ov(GM.d_slot(d, i)))) for i in range(7)])


class SMG_subgraph_0(LoopInv):
    """for central_atom, atoms_atom_stereo in self._atom_stereo.items():
           if all(atom is None or atom in atom_set for atom in set((*atoms_atom_stereo.atoms, central_atom))): new_graph.set_atom_stereo(atoms_atom_stereo)"""
    modifies_dict_dom = ("astereo",)
    modifies_dict_val = ("astereo",)

    def inv(self, ctx, done):
        e = ctx.fr.env["new_graph"]
        S = ctx.fr.env["atom_set"].arr(ctx.interp)
        v0 = ctx.v_entry
        ve0 = GM.View(ctx.h_entry, e)
        ve = GM.View(H.heap_of(ctx.interp).snapshot(), e)
        x = z3.Int("lx")
        osome = H.ODescrS.DSome
        view = lambda vv, xx: z3.If(vv.as_has(xx), osome(vv.as_val(xx)), H.ODescrS.DNone)  # noqa
        return [
            ("visited-are-keys", FA([x], z3.Implies(z3.Select(done, x), z3.Select(ctx.C, x)), patterns=[z3.Select(done, x)])),
            ("visited-descriptors-inside-the-atom-set-copied-others-as-before",
             FA([x], view(ve, x) == z3.If(z3.And(z3.Select(done, x), v0.as_has(x), _inside(v0.as_val(x), S)), osome(v0.as_val(x)), view(ve0, x)))),
            ("only-the-subgraph's-atom-stereo-table-is-written", _frame_other_refs(ctx, "astereo", e.fields["_atom_stereo"].ref)),
        ]


class SMG_subgraph_1(LoopInv):
    """for _bond, bond_stereo in self._bond_stereo.items():
           if all(atom is None or atom in atom_set for atom in bond_stereo.atoms): new_graph.set_bond_stereo(bond_stereo)"""
    modifies_dict_dom = ("bstereo",)
    modifies_dict_val = ("bstereo",)

    def inv(self, ctx, done):
        e = ctx.fr.env["new_graph"]
        S = ctx.fr.env["atom_set"].arr(ctx.interp)
        v0 = ctx.v_entry
        ve0 = GM.View(ctx.h_entry, e)
        ve = GM.View(H.heap_of(ctx.interp).snapshot(), e)
        b = z3.Const("lb", BondS)
        osome = H.ODescrS.DSome
        view = lambda vv, bb: z3.If(vv.bs_has(bb), osome(vv.bs_val(bb)), H.ODescrS.DNone)  # noqa
        return [
            ("visited-are-keys", FA([b], z3.Implies(z3.Select(done, b), z3.Select(ctx.C, b)), patterns=[z3.Select(done, b)])),
            ("visited-descriptors-inside-the-atom-set-copied-others-as-before",
             FA([b], view(ve, b) == z3.If(z3.And(z3.Select(done, b), v0.bs_has(b), _inside(v0.bs_val(b), S)), osome(v0.bs_val(b)), view(ve0, b)))),
            ("only-the-subgraph's-bond-stereo-table-is-written", _frame_other_refs(ctx, "bstereo", e.fields["_bond_stereo"].ref)),
        ]


def _rho_inv(ctx):
    """the renaming given as `mapping` (identity outside its keys) and the inverse function named by the contract"""
    m = ctx.fr.env["mapping"]
    hE = ctx.h_entry
    rho = lambda x: z3.If(hE.d_has(H.D_INTINT, m.ref, x), hE.d_get(H.D_INTINT, m.ref, x), x)  # noqa
    inv = ctx.interp.state["contract_sym"]["inv"]
    return rho, inv


class SMG_relabel_0(LoopInv):
    """for central_atom, stereo in self._atom_stereo.items():
           new_atom_stereo_dict[mapping.get(central_atom, central_atom)] = stereo.__class__(tuple(mapping.get(a, a) for a in stereo.atoms), stereo.parity)"""
    modifies_dict_dom = ("astereo",)
    modifies_dict_val = ("astereo",)
    accumulators = {"new_atom_stereo_dict": "astereo"}

    def inv(self, ctx, done):
        acc = ctx.fr.env["new_atom_stereo_dict"]
        v0 = ctx.v_entry
        h = H.heap_of(ctx.interp)
        rho, inv = _rho_inv(ctx)
        y = z3.Int("ly")
        x = z3.Int("lx")
        osome = H.ODescrS.DSome
        view = z3.If(h.d_has(H.D_ASTEREO, acc.ref, y), osome(h.d_get(H.D_ASTEREO, acc.ref, y)), H.ODescrS.DNone)
        src = inv(y)
        return [
            ("visited-are-keys", FA([x], z3.Implies(z3.Select(done, x), z3.Select(ctx.C, x)), patterns=[z3.Select(done, x)])),
            ("renamed-descriptors-of-the-visited-centres-collected",
             FA([y], view == z3.If(z3.And(z3.Select(done, src), v0.as_has(src), rho(src) == y), osome(GM.d_relabel(v0.as_val(src), rho)), H.ODescrS.DNone))),
            ("only-the-new-table-is-written", _frame_other_refs(ctx, "astereo", acc.ref)),
        ]


class SMG_relabel_1(LoopInv):
    """for bond, bond_stereo in self._bond_stereo.items():
           new_bond_stereo_dict[frozenset(mapping.get(a, a) for a in bond)] = bond_stereo.__class__(tuple(mapping.get(a, a) for a in bond_stereo.atoms), bond_stereo.parity)"""
    modifies_dict_dom = ("bstereo",)
    modifies_dict_val = ("bstereo",)
    accumulators = {"new_bond_stereo_dict": "bstereo"}

    def inv(self, ctx, done):
        acc = ctx.fr.env["new_bond_stereo_dict"]
        v0 = ctx.v_entry
        h = H.heap_of(ctx.interp)
        rho, inv = _rho_inv(ctx)
        b = z3.Const("lb", BondS)
        y = z3.Const("lyb", BondS)
        osome = H.ODescrS.DSome
        view = z3.If(h.d_has(H.D_BSTEREO, acc.ref, y), osome(h.d_get(H.D_BSTEREO, acc.ref, y)), H.ODescrS.DNone)
        src = mkbond(inv(BondS.lo(y)), inv(BondS.hi(y)))
        img = mkbond(rho(BondS.lo(src)), rho(BondS.hi(src)))
        return [
            ("visited-are-keys", FA([b], z3.Implies(z3.Select(done, b), z3.Select(ctx.C, b)), patterns=[z3.Select(done, b)])),
            ("renamed-descriptors-of-the-visited-bonds-collected",
             FA([y], z3.Implies(BondS.lo(y) < BondS.hi(y),
                                view == z3.If(z3.And(z3.Select(done, src), v0.bs_has(src), img == y), osome(GM.d_relabel(v0.bs_val(src), rho)), H.ODescrS.DNone)))),
            ("keys-are-normalised-bonds", FA([y], z3.Implies(h.d_has(H.D_BSTEREO, acc.ref, y), BondS.lo(y) < BondS.hi(y)), patterns=[h.d_has(H.D_BSTEREO, acc.ref, y)])),
            ("only-the-new-table-is-written", _frame_other_refs(ctx, "bstereo", acc.ref)),
        ]


class _SCRG_relabel_changes(LoopInv):
    """for key, stereo_change_dict in self._atom_stereo_change.items():        (and the bond table)
           for stereo_change, stereo in stereo_change_dict.items():
               if stereo is None: continue
               acc[renamed key][stereo_change] = stereo.__class__(tuple(mapping.get(a, a) for a in stereo.atoms), stereo.parity)
    acc is a defaultdict(ChangeDict): lifted into the heap as a table whose missing keys are created on access"""
    atomic = True
    allocates = True

    def setup(self, ctx, iterable):
        t = "achg" if self.atomic else "bchg"
        self.modifies_dict_dom = (t, "chg")
        self.modifies_dict_val = (t, "chg")
        self.accumulators = {"atom_stereo_change" if self.atomic else "bond_stereo_change": t}

    def inv(self, ctx, done):
        acc = ctx.fr.env["atom_stereo_change" if self.atomic else "bond_stereo_change"]
        v0, E = ctx.v_entry, ctx.h_entry
        N = H.heap_of(ctx.interp).snapshot()
        rho, inv = _rho_inv(ctx)
        at = self.atomic
        T = H.D_ACHG if at else H.D_BCHG
        y = z3.Int("ly") if at else z3.Const("lyb", BondS)
        y2 = z3.Int("ly2") if at else z3.Const("lyb2", BondS)
        k = z3.Int("lk") if at else z3.Const("lkb", BondS)
        c = z3.Const("lc", H.ChgS)
        r_ = z3.Int("lr")
        has0, sh0, sl0 = (v0.ac_has, v0.ac_slot_has, v0.ac_slot) if at else (v0.bc_has, v0.bc_slot_has, v0.bc_slot)
        hasN = lambda yy: N.d_has(T, acc.ref, yy)  # noqa
        refN = lambda yy: N.d_get(T, acc.ref, yy)  # noqa
        shN = lambda yy, cc: N.d_has(H.D_CHG, refN(yy), cc)  # noqa
        slN = lambda yy, cc: N.d_get(H.D_CHG, refN(yy), cc)  # noqa
        src = inv(y) if at else mkbond(inv(BondS.lo(y)), inv(BondS.hi(y)))
        img = rho(src) if at else mkbond(rho(BondS.lo(src)), rho(BondS.hi(src)))
        norm = z3.BoolVal(True) if at else BondS.lo(y) < BondS.hi(y)
        collected = z3.And(z3.Select(done, src), has0(src), img == y)
        topE, topN = E.top(), N.top()
        return [
            ("visited-are-keys", FA([k], z3.Implies(z3.Select(done, k), z3.Select(ctx.C, k)), patterns=[z3.Select(done, k)])),
            ("keys-collected-are-the-renamed-visited-keys", FA([y], z3.Implies(norm, hasN(y) == collected), patterns=[hasN(y)])),
            ("keys-are-normalised", FA([y], z3.Implies(hasN(y), norm), patterns=[hasN(y)])),
            ("their-change-dicts-are-new", FA([y], z3.Implies(hasN(y), z3.And(refN(y) >= topE, refN(y) < topN)), patterns=[refN(y)])),
            ("change-dicts-unshared", FA([y, y2], z3.Implies(z3.And(hasN(y), hasN(y2), y != y2), refN(y) != refN(y2)), patterns=[z3.MultiPattern(refN(y), refN(y2))])),
            ("slots-are-the-source's", FA([y, c], z3.Implies(hasN(y), shN(y, c) == sh0(src, c)), patterns=[shN(y, c)])),
            ("descriptors-are-the-renamed-ones",
             FA([y, c], z3.Implies(z3.And(hasN(y), sh0(src, c)), slN(y, c) == H.ODescrS.DSome(GM.d_relabel(H.ODescrS.dd(sl0(src, c)), rho))), patterns=[slN(y, c)])),
            ("only-the-new-table-is-written", _frame_other_refs(ctx, T.name, acc.ref)),
            ("change-dicts-that-existed-at-loop-entry-untouched",
             FA([r_], z3.Implies(r_ < topE, z3.And(z3.Select(N.dom["chg"], r_) == z3.Select(E.dom["chg"], r_), z3.Select(N.val["chg"], r_) == z3.Select(E.val["chg"], r_))))),
        ]

    def hints(self, ctx, x):
        return [ctx.v_entry.ac_ref(x) if self.atomic else ctx.v_entry.bc_ref(x)]


class SCRG_relabel_0(_SCRG_relabel_changes):
    atomic = True


class SCRG_relabel_2(_SCRG_relabel_changes):
    atomic = False


def _chg_view(vv, atomic, k, c):
    if atomic:
        return z3.If(z3.And(vv.ac_has(k), vv.ac_slot_has(k, c)), vv.ac_slot(k, c), H.ODescrS.DNone)
    return z3.If(z3.And(vv.bc_has(k), vv.bc_slot_has(k, c)), vv.bc_slot(k, c), H.ODescrS.DNone)


class _SCRG_enantiomer_changes(LoopInv):
    """both loops of SCRG.enantiomer: every visited key of the SOURCE's change table gets, in the copy, a newly allocated
    ChangeDict with the inverted descriptors; nothing else is written"""
    atomic = True
    allocates = True  # every iteration builds a new ChangeDict
    copy_name = "enantiomer"
    source_is_the_copy = False   # the descriptors are read from self (never written)
    what = "visited-entries-hold-the-inverted-descriptors"

    def role(self, c):
        return c

    def transform(self, slot):
        return H.ODescrS.DSome(GM.d_invert(H.ODescrS.dd(slot)))

    def setup(self, ctx, iterable):
        t = "achg" if self.atomic else "bchg"
        self.modifies_dict_dom = (t, "chg")
        self.modifies_dict_val = (t, "chg")

    def inv(self, ctx, done):
        e = ctx.fr.env[self.copy_name]
        v0 = ctx.v_entry                      # the source at loop entry (never written)
        E = ctx.h_entry
        h = H.heap_of(ctx.interp)
        N = h.snapshot()
        vE, vN = GM.View(E, e), GM.View(N, e)  # the copy at loop entry / now
        at = self.atomic
        k = z3.Int("lk") if at else z3.Const("lkb", BondS)
        k2 = z3.Int("lk2") if at else z3.Const("lkb2", BondS)
        c = z3.Const("lc", H.ChgS)
        r_ = z3.Int("lr")
        t = "achg" if at else "bchg"
        tref = e.fields["_atom_stereo_change" if at else "_bond_stereo_change"].ref
        pick = lambda vv: (vv.ac_has, vv.ac_ref, vv.ac_slot_has, vv.ac_slot) if at else (vv.bc_has, vv.bc_ref, vv.bc_slot_has, vv.bc_slot)  # noqa
        has0, ref0, sh0, sl0 = pick(vE if self.source_is_the_copy else v0)
        hasE, refE, shE, slE = pick(vE)
        hasN, refN, shN, slN = pick(vN)
        topE, topN = E.top(), N.top()
        touched = lambda kk: z3.And(z3.Select(done, kk), has0(kk))  # noqa
        return [
            ("visited-are-keys", FA([k], z3.Implies(z3.Select(done, k), z3.Select(ctx.C, k)), patterns=[z3.Select(done, k)])),
            ("only-the-copy's-table-is-written", _frame_other_refs(ctx, t, tref)),
            ("change-dicts-that-existed-at-loop-entry-untouched",
             FA([r_], z3.Implies(r_ < topE, z3.And(z3.Select(N.dom["chg"], r_) == z3.Select(E.dom["chg"], r_), z3.Select(N.val["chg"], r_) == z3.Select(E.val["chg"], r_))))),
            ("keys-of-the-copy", FA([k], hasN(k) == z3.Or(hasE(k), touched(k)), patterns=[hasN(k)])),
            ("visited-entries-are-new-dicts-others-keep-theirs",
             FA([k], z3.Implies(hasN(k), z3.If(touched(k), z3.And(refN(k) >= topE, refN(k) < topN), refN(k) == refE(k))), patterns=[refN(k)])),
            ("change-dicts-of-the-copy-allocated-during-the-call", FA([k], z3.Implies(hasN(k), z3.And(refN(k) >= E.A0, refN(k) < topN)), patterns=[refN(k)])),
            ("change-dicts-of-the-copy-unshared", FA([k, k2], z3.Implies(z3.And(hasN(k), hasN(k2), k != k2), refN(k) != refN(k2)), patterns=[z3.MultiPattern(refN(k), refN(k2))])),
            ("visited-entries-are-keys-of-the-copy", FA([k], z3.Implies(touched(k), hasN(k)), patterns=[z3.Select(done, k)])),
            ("visited-entries-have-the-source's-slots", FA([k, c], z3.Implies(touched(k), shN(k, c) == sh0(k, self.role(c))), patterns=[shN(k, c)])),
            (self.what,
             FA([k, c], z3.Implies(z3.And(touched(k), sh0(k, self.role(c))), slN(k, c) == self.transform(sl0(k, self.role(c)))), patterns=[slN(k, c)])),
        ]

    def hints(self, ctx, x):
        # the source's change dictionary under the loop element (an old reference) and the copy's
        e = ctx.fr.env[self.copy_name]
        vE = GM.View(ctx.h_entry, e)
        return [ctx.v_entry.ac_ref(x), vE.ac_ref(x)] if self.atomic else [ctx.v_entry.bc_ref(x), vE.bc_ref(x)]


class SCRG_enantiomer_0(_SCRG_enantiomer_changes):
    """for atom in self.atoms: ... enantiomer.set_atom_stereo_change(**{change.value: stereo.invert() ...})"""
    atomic = True


class SCRG_enantiomer_1(_SCRG_enantiomer_changes):
    """for bond, bond_change_dict in self._bond_stereo_change.items(): enantiomer._bond_stereo_change[bond] = ChangeDict(...inverted...)"""
    atomic = False


class SCRG_subgraph_1(LoopInv):
    """for key, change_dict in table.items():          (table = atom change table, then bond change table)
           kept = ChangeDict((change, stereo) for change, stereo in change_dict.items() if stereo is not None and all(a is None or a in atom_set for a in stereo.atoms))
           if kept: new_table[key] = kept"""
    allocates = True

    def setup(self, ctx, iterable):
        self.t = iterable.d.t if isinstance(iterable, H.DictItems) else iterable.source.t  # D_ACHG or D_BCHG
        self.modifies_dict_dom = (self.t.name, "chg")
        self.modifies_dict_val = (self.t.name, "chg")

    def inv(self, ctx, done):
        e = ctx.fr.env["new_graph"]
        S = ctx.fr.env["atom_set"].arr(ctx.interp)
        v0, E = ctx.v_entry, ctx.h_entry
        N = H.heap_of(ctx.interp).snapshot()
        vE, vN = GM.View(E, e), GM.View(N, e)
        at = self.t is H.D_ACHG
        k = z3.Int("lk") if at else z3.Const("lkb", BondS)
        k2 = z3.Int("lk2") if at else z3.Const("lkb2", BondS)
        c = z3.Const("lc", H.ChgS)
        r_ = z3.Int("lr")
        tref = e.fields["_atom_stereo_change" if at else "_bond_stereo_change"].ref
        pick = lambda vv: (vv.ac_has, vv.ac_ref, vv.ac_slot_has, vv.ac_slot) if at else (vv.bc_has, vv.bc_ref, vv.bc_slot_has, vv.bc_slot)  # noqa
        has0, ref0, sh0, sl0 = pick(v0)
        hasE, refE, shE, slE = pick(vE)
        hasN, refN, shN, slN = pick(vN)
        topE, topN = E.top(), N.top()
        survive = lambda kk, cc: z3.And(sh0(kk, cc), H.ODescrS.is_DSome(sl0(kk, cc)), _inside(H.ODescrS.dd(sl0(kk, cc)), S))  # noqa
        some = lambda kk: z3.Or(*[survive(kk, ch) for ch in (H.FORMED, H.FLEETING, H.BROKEN)])  # noqa
        kept = lambda kk: z3.And(z3.Select(done, kk), has0(kk), some(kk))  # noqa
        return [
            ("visited-are-keys", FA([k], z3.Implies(z3.Select(done, k), z3.Select(ctx.C, k)), patterns=[z3.Select(done, k)])),
            ("only-the-subgraph's-table-is-written", _frame_other_refs(ctx, self.t.name, tref)),
            ("change-dicts-that-existed-at-loop-entry-untouched",
             FA([r_], z3.Implies(r_ < topE, z3.And(z3.Select(N.dom["chg"], r_) == z3.Select(E.dom["chg"], r_), z3.Select(N.val["chg"], r_) == z3.Select(E.val["chg"], r_))))),
            ("keys-of-the-subgraph's-table", FA([k], hasN(k) == z3.Or(hasE(k), kept(k)), patterns=[hasN(k)])),
            ("kept-entries-are-new-dicts-others-keep-theirs",
             FA([k], z3.Implies(hasN(k), z3.If(kept(k), z3.And(refN(k) >= topE, refN(k) < topN), refN(k) == refE(k))), patterns=[refN(k)])),
            ("change-dicts-of-the-subgraph-allocated-during-the-call", FA([k], z3.Implies(hasN(k), z3.And(refN(k) >= E.A0, refN(k) < topN)), patterns=[refN(k)])),
            ("change-dicts-of-the-subgraph-unshared", FA([k, k2], z3.Implies(z3.And(hasN(k), hasN(k2), k != k2), refN(k) != refN(k2)), patterns=[z3.MultiPattern(refN(k), refN(k2))])),
            ("kept-entries-have-the-surviving-slots", FA([k, c], z3.Implies(kept(k), shN(k, c) == survive(k, c)), patterns=[shN(k, c)])),
            ("kept-entries-hold-the-source's-descriptors", FA([k, c], z3.Implies(z3.And(kept(k), survive(k, c)), slN(k, c) == sl0(k, c)), patterns=[slN(k, c)])),
        ]

    def hints(self, ctx, x):
        e = ctx.fr.env["new_graph"]
        vE = GM.View(ctx.h_entry, e)
        return [ctx.v_entry.ac_ref(x), vE.ac_ref(x)] if self.t is H.D_ACHG else [ctx.v_entry.bc_ref(x), vE.bc_ref(x)]


class _SCRG_reverse_changes(_SCRG_enantiomer_changes):
    """both loops of SCRG.reverse_reaction run over the tables of the COPY and replace every entry by a newly allocated
    ChangeDict with the roles FORMED and BROKEN exchanged (each entry is read in its own iteration, before it is replaced)"""
    copy_name = "rev_reac"
    source_is_the_copy = True
    what = "visited-entries-hold-the-descriptors-of-the-exchanged-role"

    def role(self, c):
        from .derive_ops import _swap_chg

        return _swap_chg(c)

    def transform(self, slot):
        return slot


class SCRG_reverse_0(_SCRG_reverse_changes):
    atomic = True


class SCRG_reverse_1(_SCRG_reverse_changes):
    atomic = False


class CRG_reverse_0(LoopInv):
    """for bond in self.bonds:
           r = self._bond_attrs[bond].get("reaction", None)
           if r == Change.FORMED: rev_reac.set_bond_attribute(*bond, "reaction", Change.BROKEN)
           elif r == Change.BROKEN: rev_reac.set_bond_attribute(*bond, "reaction", Change.FORMED)

    rev_reac = self.copy(): in the deepcopy model the copy of the object at reference r lives at r + off.  The invariant
    speaks about the rows at `reference of the SOURCE's attribute dict + off` so that its triggers are free of the lambda
    terms of that model (E-matching cannot match inside a lambda)."""
    modifies_dict_dom = ("attr",)
    modifies_dict_val = ("attr",)

    def inv(self, ctx, done):
        from .derive_ops import _swap_label

        e = ctx.fr.env["rev_reac"]
        v0, E = ctx.v_entry, ctx.h_entry
        N = H.heap_of(ctx.interp).snapshot()
        off = z3.simplify(e.fields["_bond_attrs"].ref - ctx.g.fields["_bond_attrs"].ref)
        b = z3.Const("lb", BondS)
        x = z3.Int("lx")
        r_ = z3.Int("lr")
        k = z3.Const("lkk", H.KeyS)
        rb = v0.bref(b) + off
        ra = v0.aref(x) + off
        sel = lambda hh, kind, r, kk: z3.Select(z3.Select((hh.dom if kind == "dom" else hh.val)["attr"], r), kk)  # noqa
        lab0 = v0.battr_val(b, H.K_REACTION)
        swapped = z3.And(z3.Select(done, b), v0.battr_has(b, H.K_REACTION), _swap_label(lab0) != lab0)
        return [
            ("visited-are-bonds", FA([b], z3.Implies(z3.Select(done, b), z3.Select(ctx.C, b)), patterns=[z3.Select(done, b)])),
            ("the-copy-is-the-source-shifted", z3.And(e.fields["_atom_attrs"].ref == ctx.g.fields["_atom_attrs"].ref + off, off > 0)),
            ("attribute-names-of-the-copy's-bonds-kept", FA([b, k], z3.Implies(v0.bond(b), sel(N, "dom", rb, k) == sel(E, "dom", rb, k)), patterns=[sel(N, "dom", rb, k)])),
            ("labels-of-visited-formed-and-broken-bonds-swapped-rest-of-the-attributes-kept",
             FA([b, k], z3.Implies(v0.bond(b), sel(N, "val", rb, k) == z3.If(z3.And(swapped, k == H.K_REACTION), _swap_label(lab0), sel(E, "val", rb, k))),
                patterns=[sel(N, "val", rb, k)])),
            ("atom-attribute-dicts-of-the-copy-untouched",
             FA([x, k], z3.Implies(v0.atom(x), z3.And(sel(N, "dom", ra, k) == sel(E, "dom", ra, k), sel(N, "val", ra, k) == sel(E, "val", ra, k))),
                patterns=[sel(N, "dom", ra, k), sel(N, "val", ra, k)])),
            ("objects-of-the-source-untouched",
             FA([r_], z3.Implies(r_ < E.A0, z3.And(z3.Select(N.dom["attr"], r_) == z3.Select(E.dom["attr"], r_), z3.Select(N.val["attr"], r_) == z3.Select(E.val["attr"], r_))),
                patterns=[z3.Select(N.dom["attr"], r_), z3.Select(N.val["attr"], r_)])),
        ]

    def hints(self, ctx, x):
        return [ctx.v_entry.bref(x)]


class _MG_compose_tables(LoopInv):
    """for atom, attrs in mol_graph._atom_attrs.items(): new_graph._atom_attrs[atom] = attrs.copy()      (and the bond table)"""
    bonds = False
    allocates = True

    def setup(self, ctx, iterable):
        t = "bonds" if self.bonds else "atoms"
        self.modifies_dict_dom = (t, "attr")
        self.modifies_dict_val = (t, "attr")

    def inv(self, ctx, done):
        e, src = ctx.fr.env["new_graph"], ctx.fr.env["mol_graph"]
        E = ctx.h_entry
        N = H.heap_of(ctx.interp).snapshot()
        vE, vN, vS = GM.View(E, e), GM.View(N, e), GM.View(E, src)
        bo = self.bonds
        k = z3.Const("lb", BondS) if bo else z3.Int("lx")
        k2 = z3.Const("lb2", BondS) if bo else z3.Int("ly")
        kk = z3.Const("lkk", H.KeyS)
        r_ = z3.Int("lr")
        pick = lambda vv: (vv.bond, vv.bref, vv.battr_has, vv.battr_val) if bo else (vv.atom, vv.aref, vv.attr_has, vv.attr_val)  # noqa
        hasE, refE, ahE, avE = pick(vE)
        hasN, refN, ahN, avN = pick(vN)
        hasS, refS, ahS, avS = pick(vS)
        topE, topN = E.top(), N.top()
        tname = "bonds" if bo else "atoms"
        tref = e.fields["_bond_attrs" if bo else "_atom_attrs"].ref
        return [
            ("visited-are-keys", FA([k], z3.Implies(z3.Select(done, k), z3.Select(ctx.C, k)), patterns=[z3.Select(done, k)])),
            ("keys-are-the-old-ones-and-the-visited", FA([k], hasN(k) == z3.Or(hasE(k), z3.Select(done, k)), patterns=[hasN(k)])),
            ("visited-get-new-attribute-dicts-others-keep-theirs",
             FA([k], z3.Implies(hasN(k), z3.If(z3.Select(done, k), z3.And(refN(k) >= topE, refN(k) < topN), refN(k) == refE(k))), patterns=[refN(k)])),
            ("new-attribute-dicts-unshared", FA([k, k2], z3.Implies(z3.And(z3.Select(done, k), z3.Select(done, k2), k != k2), refN(k) != refN(k2)), patterns=[z3.MultiPattern(refN(k), refN(k2))])),
            ("visited-have-the-attributes-of-the-graph-being-added",
             FA([k, kk], z3.Implies(z3.Select(done, k), z3.And(ahN(k, kk) == ahS(k, kk), z3.Implies(ahS(k, kk), avN(k, kk) == avS(k, kk)))), patterns=[ahN(k, kk), avN(k, kk)])),
            ("only-the-new-graph's-table-is-written", _frame_other_refs(ctx, tname, tref)),
            ("attribute-dicts-that-existed-at-loop-entry-untouched",
             FA([r_], z3.Implies(r_ < topE, z3.And(z3.Select(N.dom["attr"], r_) == z3.Select(E.dom["attr"], r_), z3.Select(N.val["attr"], r_) == z3.Select(E.val["attr"], r_))))),
        ]

    def hints(self, ctx, x):
        src = ctx.fr.env["mol_graph"]
        vS = GM.View(ctx.h_entry, src)
        return [vS.bref(x) if self.bonds else vS.aref(x)]


class MG_compose_1(_MG_compose_tables):
    bonds = False


class MG_compose_2(_MG_compose_tables):
    bonds = True


class MG_compose_3(LoopInv):
    """for atom, neighbors in mol_graph._neighbors.items(): new_graph._neighbors.setdefault(atom, set()).update(neighbors)"""
    modifies_dict_dom = ("nbrs",)
    modifies_dict_val = ("nbrs",)
    modifies_set = ("iset",)
    allocates = True   # set() is evaluated in every iteration

    def inv(self, ctx, done):
        e, src = ctx.fr.env["new_graph"], ctx.fr.env["mol_graph"]
        E = ctx.h_entry
        N = H.heap_of(ctx.interp).snapshot()
        vE, vN, vS = GM.View(E, e), GM.View(N, e), GM.View(E, src)
        x, y, x2, r_ = z3.Int("lx"), z3.Int("ly"), z3.Int("lx2"), z3.Int("lr")
        topE, topN = E.top(), N.top()
        NT = e.fields["_neighbors"].ref
        fresh_key = z3.And(z3.Select(done, x), z3.Not(vE.nkey(x)))
        return [
            ("visited-are-keys", FA([x], z3.Implies(z3.Select(done, x), z3.Select(ctx.C, x)), patterns=[z3.Select(done, x)])),
            ("entries-are-the-old-ones-and-the-visited", FA([x], vN.nkey(x) == z3.Or(vE.nkey(x), z3.Select(done, x)), patterns=[vN.nkey(x)])),
            ("old-entries-keep-their-set-new-entries-get-a-new-one",
             FA([x], z3.Implies(vN.nkey(x), z3.If(fresh_key, z3.And(vN.nref(x) >= topE, vN.nref(x) < topN), vN.nref(x) == vE.nref(x))), patterns=[vN.nref(x)])),
            ("new-sets-unshared", FA([x, x2], z3.Implies(z3.And(vN.nkey(x), vN.nkey(x2), x != x2, z3.Or(z3.Not(vE.nkey(x)), z3.Not(vE.nkey(x2)))), vN.nref(x) != vN.nref(x2)),
                                     patterns=[z3.MultiPattern(vN.nref(x), vN.nref(x2))])),
            ("sets-are-the-old-members-plus-the-neighbours-in-the-graph-being-added",
             FA([x, y], z3.Implies(vN.nkey(x), vN.nbr(x, y) == z3.Or(z3.And(vE.nkey(x), vE.nbr(x, y)), z3.And(z3.Select(done, x), vS.nbr(x, y)))), patterns=[vN.nbr(x, y)])),
            ("only-the-new-graph's-table-is-written", _frame_other_refs(ctx, "nbrs", NT)),
            ("sets-of-the-sources-untouched", FA([r_], z3.Implies(r_ < E.A0, z3.Select(N.mem["iset"], r_) == z3.Select(E.mem["iset"], r_)))),
        ]

    def hints(self, ctx, x):
        src = ctx.fr.env["mol_graph"]
        return [GM.View(ctx.h_entry, src).nref(x), GM.View(ctx.h_entry, ctx.fr.env["new_graph"]).nref(x)]


class _CRG_side_atoms(LoopInv):
    """for atom in self.atoms: product.add_atom(atom, **self._atom_attrs[atom])        (reactant() and product())"""
    modifies_dict_dom = ("atoms", "nbrs", "attr")
    modifies_dict_val = ("atoms", "nbrs", "attr")
    modifies_set = ("iset",)
    allocates = True

    def inv(self, ctx, done):
        e = ctx.fr.env["product"]
        v0, E = ctx.v_entry, ctx.h_entry
        N = H.heap_of(ctx.interp).snapshot()
        vN = GM.View(N, e)
        x, y, r_ = z3.Int("lx"), z3.Int("ly"), z3.Int("lr")
        k = z3.Const("lkk", H.KeyS)
        topE, topN = E.top(), N.top()
        AT, NT = e.fields["_atom_attrs"].ref, e.fields["_neighbors"].ref
        row_same = lambda arrN, arrE, r: z3.Select(arrN, r) == z3.Select(arrE, r)  # noqa
        return [
            ("visited-are-atoms", FA([x], z3.Implies(z3.Select(done, x), z3.Select(ctx.C, x)), patterns=[z3.Select(done, x)])),
            ("atoms-of-the-new-graph-are-the-visited-ones", FA([x], z3.And(vN.atom(x) == z3.Select(done, x), vN.nkey(x) == z3.Select(done, x)), patterns=[vN.atom(x), vN.nkey(x)])),
            ("their-attribute-dicts-and-neighbour-sets-are-new", FA([x], z3.Implies(z3.Select(done, x), z3.And(vN.aref(x) >= topE, vN.aref(x) < topN, vN.nref(x) >= topE, vN.nref(x) < topN)),
                                                                    patterns=[vN.aref(x), vN.nref(x)])),
            ("attribute-dicts-unshared", FA([x, y], z3.Implies(z3.And(z3.Select(done, x), z3.Select(done, y), x != y), vN.aref(x) != vN.aref(y)), patterns=[z3.MultiPattern(vN.aref(x), vN.aref(y))])),
            ("neighbour-sets-unshared", FA([x, y], z3.Implies(z3.And(z3.Select(done, x), z3.Select(done, y), x != y), vN.nref(x) != vN.nref(y)), patterns=[z3.MultiPattern(vN.nref(x), vN.nref(y))])),
            ("attributes-are-the-source's", FA([x, k], z3.Implies(z3.Select(done, x), z3.And(vN.attr_has(x, k) == v0.attr_has(x, k), z3.Implies(v0.attr_has(x, k), vN.attr_val(x, k) == v0.attr_val(x, k)))),
                                               patterns=[vN.attr_has(x, k), vN.attr_val(x, k)])),
            ("neighbour-sets-empty", FA([x, y], z3.Implies(z3.Select(done, x), z3.Not(vN.nbr(x, y))), patterns=[vN.nbr(x, y)])),
            ("only-the-new-graph's-tables-are-written", z3.And(_frame_other_refs(ctx, "atoms", AT), _frame_other_refs(ctx, "nbrs", NT))),
            ("objects-that-existed-at-loop-entry-untouched",
             FA([r_], z3.Implies(r_ < topE, z3.And(row_same(N.dom["attr"], E.dom["attr"], r_), row_same(N.val["attr"], E.val["attr"], r_), row_same(N.mem["iset"], E.mem["iset"], r_))))),
        ]


class _CRG_side_bonds(LoopInv):
    """for bond in self.bonds:
           r = self._bond_attrs[bond].get("reaction", None)
           if r is None or r == Change.BROKEN (FORMED for product()):
               attrs = self._bond_attrs[bond].copy(); attrs.pop("reaction", None); product.add_bond(*bond, **attrs)"""
    modifies_dict_dom = ("bonds", "attr")
    modifies_dict_val = ("bonds", "attr")
    modifies_set = ("iset",)
    allocates = True
    keep_label = "BROKEN"

    def inv(self, ctx, done):
        e = ctx.fr.env["product"]
        v0, E = ctx.v_entry, ctx.h_entry
        N = H.heap_of(ctx.interp).snapshot()
        vE, vN = GM.View(E, e), GM.View(N, e)
        b, b2 = z3.Const("lb", BondS), z3.Const("lb2", BondS)
        x, y, r_ = z3.Int("lx"), z3.Int("ly"), z3.Int("lr")
        k = z3.Const("lkk", H.KeyS)
        topE, topN = E.top(), N.top()
        BT = e.fields["_bond_attrs"].ref
        lab = v0.battr_val(b, H.K_REACTION)
        on_side = z3.And(v0.bond(b), z3.Or(z3.Not(v0.battr_has(b, H.K_REACTION)), lab == H.ValS.VChg(H.CHG[self.keep_label])))
        kept = z3.And(z3.Select(done, b), on_side)
        keptxy = z3.substitute(kept, (b, mkbond(x, y)))
        row_same = lambda arrN, arrE, r: z3.Select(arrN, r) == z3.Select(arrE, r)  # noqa
        return [
            ("visited-are-bonds", FA([b], z3.Implies(z3.Select(done, b), z3.Select(ctx.C, b)), patterns=[z3.Select(done, b)])),
            ("bonds-of-the-new-graph-are-the-visited-ones-on-this-side", FA([b], vN.bond(b) == kept, patterns=[vN.bond(b)])),
            ("their-attribute-dicts-are-new", FA([b], z3.Implies(vN.bond(b), z3.And(vN.bref(b) >= topE, vN.bref(b) < topN)), patterns=[vN.bref(b)])),
            ("attribute-dicts-unshared", FA([b, b2], z3.Implies(z3.And(vN.bond(b), vN.bond(b2), b != b2), vN.bref(b) != vN.bref(b2)), patterns=[z3.MultiPattern(vN.bref(b), vN.bref(b2))])),
            ("attributes-are-the-source's-without-the-label",
             FA([b, k], z3.Implies(vN.bond(b), z3.And(vN.battr_has(b, k) == z3.And(v0.battr_has(b, k), k != H.K_REACTION), z3.Implies(v0.battr_has(b, k), vN.battr_val(b, k) == v0.battr_val(b, k)))),
                patterns=[vN.battr_has(b, k), vN.battr_val(b, k)])),
            ("neighbour-sets-mirror-the-bonds-added-so-far", FA([x, y], z3.Implies(vE.atom(x), vN.nbr(x, y) == z3.And(x != y, keptxy)), patterns=[vN.nbr(x, y)])),
            ("only-the-new-graph's-bond-table-is-written", _frame_other_refs(ctx, "bonds", BT)),
            ("attribute-dicts-that-existed-at-loop-entry-untouched", FA([r_], z3.Implies(r_ < topE, z3.And(row_same(N.dom["attr"], E.dom["attr"], r_), row_same(N.val["attr"], E.val["attr"], r_))))),
            ("sets-of-the-source-untouched", FA([r_], z3.Implies(r_ < E.A0, row_same(N.mem["iset"], E.mem["iset"], r_)))),
        ]

    def hints(self, ctx, x):
        return [ctx.v_entry.bref(x), ctx.v_entry.nref(BondS.lo(x)), ctx.v_entry.nref(BondS.hi(x))]


class CRG_reactant_0(_CRG_side_atoms):
    pass


class CRG_reactant_1(_CRG_side_bonds):
    keep_label = "BROKEN"


class CRG_product_0(_CRG_side_atoms):
    pass


class CRG_product_1(_CRG_side_bonds):
    keep_label = "FORMED"


class _SCRG_side_changes(LoopInv):
    """for key, change_dict in self._atom_stereo_change.items():      (and the bond table)
           if stereo := change_dict[Change.BROKEN]:  reactant._atom_stereo[key] = stereo      (product: FORMED, through set_*_stereo)"""
    atomic = True
    label = "BROKEN"
    copy_name = "reactant"

    def setup(self, ctx, iterable):
        t = "astereo" if self.atomic else "bstereo"
        self.modifies_dict_dom = (t,)
        self.modifies_dict_val = (t,)

    def inv(self, ctx, done):
        e = ctx.fr.env[self.copy_name]
        v0 = ctx.v_entry
        ve0 = GM.View(ctx.h_entry, e)
        ve = GM.View(H.heap_of(ctx.interp).snapshot(), e)
        at = self.atomic
        k = z3.Int("lk") if at else z3.Const("lkb", BondS)
        c = H.CHG[self.label]
        osome = H.ODescrS.DSome
        if at:
            view = lambda vv: z3.If(vv.as_has(k), osome(vv.as_val(k)), H.ODescrS.DNone)  # noqa
            taken = z3.And(z3.Select(done, k), v0.ac_has(k), v0.ac_slot_has(k, c))
            slot = v0.ac_slot(k, c)
        else:
            view = lambda vv: z3.If(vv.bs_has(k), osome(vv.bs_val(k)), H.ODescrS.DNone)  # noqa
            taken = z3.And(z3.Select(done, k), v0.bc_has(k), v0.bc_slot_has(k, c))
            slot = v0.bc_slot(k, c)
        tname = "astereo" if at else "bstereo"
        tref = e.fields["_atom_stereo" if at else "_bond_stereo"].ref
        return [
            ("visited-are-keys", FA([k], z3.Implies(z3.Select(done, k), z3.Select(ctx.C, k)), patterns=[z3.Select(done, k)])),
            ("descriptors-of-this-role-put-in-place-others-as-before", FA([k], view(ve) == z3.If(taken, slot, view(ve0)))),
            ("only-the-new-graph's-table-is-written", _frame_other_refs(ctx, tname, tref)),
        ]

    def hints(self, ctx, x):
        return [ctx.v_entry.ac_ref(x) if self.atomic else ctx.v_entry.bc_ref(x)]


def _side_loops(method, label):
    out = {}
    for ordinal, atomic in ((0, True), (1, False)):
        out[("graphs/scrg.py", f"StereoCondensedReactionGraph.{method}", ordinal)] = type(
            f"SCRG_{method}_{ordinal}", (_SCRG_side_changes,), {"atomic": atomic, "label": label, "copy_name": method})
    return out


def _role_loop(label):
    class _L(LoopInv):
        __doc__ = f"""for bond in self.bonds: a1, a2 = bond; if self.get_bond_attribute(a1, a2, "reaction") == Change.{label}: acc.add(bond)"""
        modifies_set = ("bset",)
        accumulators = {"f_bonds": "bset", "b_bonds": "bset"}

        def inv(self, ctx, done):
            v0 = ctx.v_entry
            acc = ctx.fr.env.get("f_bonds") if isinstance(ctx.fr.env.get("f_bonds"), H.SetRef) else ctx.fr.env.get("b_bonds")
            b = z3.Const("lb", BondS)
            r_ = z3.Int("lr")
            mem = H.heap_of(ctx.interp).s_has(acc.t, acc.ref, b)
            is_role = z3.And(v0.bond(b), v0.battr_has(b, H.K_REACTION), v0.battr_val(b, H.K_REACTION) == H.ValS.VChg(H.CHG[label]))
            return [
                ("visited-are-bonds", FA([b], z3.Implies(z3.Select(done, b), z3.Select(ctx.C, b)), patterns=[z3.Select(done, b)])),
                ("collected-are-the-visited-bonds-with-this-change", FA([b], mem == z3.And(z3.Select(done, b), is_role), patterns=[mem])),
                ("no-other-set-is-touched", FA([r_], z3.Implies(r_ != acc.ref, z3.Select(H.heap_of(ctx.interp).mem["bset"], r_) == z3.Select(ctx.h_entry.mem["bset"], r_)))),
            ]

    return _L


LOOPS = {
    ("graphs/mg.py", "MolGraph.compose", 1): MG_compose_1,
    ("graphs/mg.py", "MolGraph.compose", 2): MG_compose_2,
    ("graphs/mg.py", "MolGraph.compose", 3): MG_compose_3,
    ("graphs/scrg.py", "StereoCondensedReactionGraph.relabel_atoms", 0): SCRG_relabel_0,
    ("graphs/scrg.py", "StereoCondensedReactionGraph.relabel_atoms", 2): SCRG_relabel_2,
    ("graphs/crg.py", "CondensedReactionGraph.reactant", 0): CRG_reactant_0,
    ("graphs/crg.py", "CondensedReactionGraph.reactant", 1): CRG_reactant_1,
    ("graphs/crg.py", "CondensedReactionGraph.product", 0): CRG_product_0,
    ("graphs/crg.py", "CondensedReactionGraph.product", 1): CRG_product_1,
    ("graphs/scrg.py", "StereoCondensedReactionGraph.reverse_reaction", 0): SCRG_reverse_0,
    ("graphs/scrg.py", "StereoCondensedReactionGraph.reverse_reaction", 1): SCRG_reverse_1,
    ("graphs/crg.py", "CondensedReactionGraph.reverse_reaction", 0): CRG_reverse_0,
    ("graphs/smg.py", "StereoMolGraph.relabel_atoms", 0): SMG_relabel_0,
    ("graphs/smg.py", "StereoMolGraph.relabel_atoms", 1): SMG_relabel_1,
    ("graphs/scrg.py", "StereoCondensedReactionGraph.subgraph", 1): SCRG_subgraph_1,
    ("graphs/smg.py", "StereoMolGraph.subgraph", 0): SMG_subgraph_0,
    ("graphs/smg.py", "StereoMolGraph.subgraph", 1): SMG_subgraph_1,
    ("graphs/scrg.py", "StereoCondensedReactionGraph.enantiomer", 0): SCRG_enantiomer_0,
    ("graphs/scrg.py", "StereoCondensedReactionGraph.enantiomer", 1): SCRG_enantiomer_1,
    ("graphs/smg.py", "StereoMolGraph.enantiomer", 0): SMG_enantiomer_0,
    ("graphs/smg.py", "StereoMolGraph.enantiomer", 1): SMG_enantiomer_1,
    ("graphs/crg.py", "CondensedReactionGraph.get_formed_bonds", 0): _role_loop("FORMED"),
    ("graphs/crg.py", "CondensedReactionGraph.get_broken_bonds", 0): _role_loop("BROKEN"),
    ("graphs/crg.py", "CondensedReactionGraph.get_fleeting_bonds", 0): _role_loop("FLEETING"),
    ("graphs/scrg.py", "StereoCondensedReactionGraph.remove_atom", 1): SCRG_remove_atom_1,
    ("graphs/mg.py", "MolGraph.remove_atom", 0): MG_remove_atom_0,
    ("graphs/smg.py", "StereoMolGraph.remove_atom", 0): SMG_remove_atom_0,
    ("graphs/smg.py", "StereoMolGraph.remove_atom", 1): SMG_remove_atom_1,
}


# comprehensions summarised on a generic element (vf/pyvc/summarise.py): (file, Class.method, ordinal of the comprehension in the method)
SUMMARISE = {
    ("graphs/mg.py", "MolGraph.subgraph", 0),   # {atom: self._atom_attrs[atom].copy() for atom in atoms}
    ("graphs/mg.py", "MolGraph.subgraph", 1),   # {bond: attrs.copy() for bond, attrs in self._bond_attrs.items() if new_atoms.issuperset(bond)}
    ("graphs/mg.py", "MolGraph.subgraph", 2),   # {atom: {n for n in self._neighbors[atom] if n in new_atoms} for atom in new_atoms}
    ("graphs/mg.py", "MolGraph.subgraph", 3),   # (the nested set comprehension; handled with its parent)
    ("graphs/mg.py", "MolGraph.relabel_atoms", 0),
    ("graphs/mg.py", "MolGraph.relabel_atoms", 1),
    ("graphs/mg.py", "MolGraph.relabel_atoms", 2),
    ("graphs/mg.py", "MolGraph.relabel_atoms", 3),
    ("graphs/mg.py", "MolGraph.relabel_atoms", 4),
}

LOOPS.update(_side_loops("reactant", "BROKEN"))
LOOPS.update(_side_loops("product", "FORMED"))
