"""C08 - reaction graphs decompose and reverse faithfully.
E1 (proved, unbounded, loop invariants): get_formed_bonds / get_broken_bonds / get_fleeting_bonds return exactly the bonds
carrying that change and modify nothing (the encoding side - add_*_bond store exactly that change - is part of C09).
E3 (bounded): from_graphs / reactant / product / reverse_reaction on random reactant-product-TS triples."""
import time

from ..contracts import graph_ops as G
from ..core import Report, src_info
from ..e3 import derive
from ..par import pmap
from ..pyvc.world import World
from . import e1_derive


def run(tier, seed):
    t0 = time.time()
    rep = Report("C08", tier, seed)
    rep.level = "other"
    timeout = 10000 if tier == "quick" else 40000
    tasks = [("ob_role_query", (c, q, timeout)) for q in G.ROLE_QUERIES for c in ("CondensedReactionGraph", "StereoCondensedReactionGraph")]
    for obs, _ in pmap("vf.props.e1_graph", tasks):
        rep.obs.extend(obs)
    # reverse_reaction of both classes against its contract (vf/contracts/derive_ops.py) with loop invariants, one task per loop
    for obs, _ in pmap("vf.props.e1_derive", e1_derive.tasks("C08", tier, timeout)):
        rep.obs.extend(obs)
    derive.run_c08(rep, tier, seed)
    rep.functions = [src_info("graphs/crg.py", f"CondensedReactionGraph.{q}") for q in G.ROLE_QUERIES] + e1_derive.functions(World(), "C08")
    proof = [o for o in rep.obs if o.kind == "proof"]
    rep.rule = "E1: one VC per (class, method, path, clause) incl. loop-invariant init / preservation; E3: random reactant/product/TS triples over the skeleton corpus; distinct_nontrivial = distinct triples"
    rep.trusted_base = ["pyvc encoding + symbolic heap", "z3 5.1"]
    rep.assumptions = ["termination of the loops is not proved", "from_graphs is covered by the bounded part only (it zips two sequences of the argument graphs: outside the container model)",
                       "reactant()/product() of StereoCondensedReactionGraph are proved under the pre-condition that a bond stereo change of that role sits on a bond of that side (what from_graphs establishes)",
                       "'reversing twice restores an identical graph' follows from the proved contract of reverse_reaction (the role swap is an involution on the views); it is additionally evaluated by the bounded part",
                       "assumed contract of copy.deepcopy (reverse_reaction starts from self.copy())"]
    rep.explanation = f"{len(proof)} proof obligations on the three role queries and on reverse_reaction / reactant / product of both classes; from_graphs is bounded (coverage.bounded_groups)"
    rep.samples = [o.name for o in proof[:: max(1, len(proof) // 6)]][:6]
    return rep, t0
