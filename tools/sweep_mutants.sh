#!/bin/sh
# tools/sweep_mutants.sh : for every delivered mutant, on a scratch clone of /repo and a scratch copy of /verif:
#   demo with/without the patch on the CURRENT head, then the quick check of its property (and extra checks given in $EXTRA)
# writes /tmp/sweep/<id>_<X>.txt
rm -rf /tmp/mrepo /tmp/mverif; git clone -q /repo /tmp/mrepo
rsync -a --exclude .venv --exclude .git --exclude replays --exclude scratch /verif/ /tmp/mverif/; ln -s /verif/.venv /tmp/mverif/.venv
mkdir -p /tmp/sweep
for d in /tmp/seedout/C*/[AB]; do
  id=$(basename $(dirname $d)); X=$(basename $d); P=$d/patch.diff
  [ -f /tmp/ported/$id$X/patch.diff ] && P=/tmp/ported/$id$X/patch.diff
  out=/tmp/sweep/${id}_$X.txt; : > $out
  cd /tmp/mrepo; git checkout -q -- .; 
  PYTHONPATH=/tmp/mrepo/src timeout 900 /venv/bin/python $d/demo.py >/dev/null 2>&1; echo "demo_without=$?" >> $out
  if git apply $P 2>/dev/null; then echo "applies=$P" >> $out; else echo "applies=NO" >> $out; continue; fi
  PYTHONPATH=/tmp/mrepo/src timeout 900 /venv/bin/python $d/demo.py >/dev/null 2>&1; echo "demo_with=$?" >> $out
  for c in $id $(cat /tmp/sweep/extra_$id$X 2>/dev/null); do
    r=$(cd /tmp/mverif && VF_REPO=/tmp/mrepo ./check $c quick 2>&1 | grep -E "^VIOLATION|^\[C" | grep -v KNOWN | head -3 | cut -c1-220)
    echo "check $c: $r" >> $out
  done
  git checkout -q -- .
done
echo SWEEP-DONE >> /tmp/sweep/done
