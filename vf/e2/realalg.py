"""E2: obligations over the reals for the geometry code (DESIGN 2.3).

The REAL source text of the function is compiled from /repo on every run and executed with `np` bound to a proxy
whose arrays are numpy object arrays of sympy expressions: numpy itself does the indexing / broadcasting, sympy the
arithmetic.  Overridden (object dtype has no float kernels): sqrt, sign, linalg.norm, divide/multiply with out=,
square with out=, sum.  linalg.norm returns a fresh POSITIVE symbol n_k and records n_k**2 = v.v, so that
sign(P / n_k) = sign(P).  np.sign is symbolic: Sign(expr) keeps the expression whose sign is taken.

Assumptions (stated in the evidence): IEEE doubles are treated as real numbers; inputs in general position (no
quantity whose sign is taken is exactly zero).
"""
from __future__ import annotations

import ast
import itertools
import os
import time

import numpy as np
import sympy as sp

from .. import SRC


class Sign:
    """the symbolic result of np.sign(expr).astype(int8)"""

    def __init__(self, expr):
        self.expr = expr

    def astype(self, *_a, **_k):
        return self

    def __int__(self):
        raise TypeError("symbolic sign has no concrete value")

    def __mul__(self, o):
        return Sign(self.expr * o)

    __rmul__ = __mul__

    def __neg__(self):
        return Sign(-self.expr)


class NPProxy:
    def __init__(self):
        self.norms = []  # (symbol, squared norm expression)
        self.linalg = self
        self.int8 = np.int8

    def __getattr__(self, name):
        return getattr(np, name)

    def _norm_symbol(self, sq):
        n = sp.Symbol(f"n{len(self.norms)}", positive=True)
        self.norms.append((n, sp.expand(sq)))
        return n

    def norm(self, a, axis=None, keepdims=False):
        a = np.asarray(a, dtype=object)
        if axis is None:
            return self._norm_symbol(sum(x * x for x in a.ravel()))
        sq = np.sum(a * a, axis=axis, keepdims=keepdims)
        f = np.vectorize(lambda s: self._norm_symbol(s), otypes=[object])
        return f(sq) if isinstance(sq, np.ndarray) else self._norm_symbol(sq)

    def sqrt(self, a, out=None):
        r = np.vectorize(lambda s: sp.sqrt(s), otypes=[object])(np.asarray(a, dtype=object))
        if out is not None:
            out[...] = r
            return out
        return r

    def sign(self, a):
        if isinstance(a, np.ndarray):
            if a.ndim == 0 or a.size == 1:
                return Sign(a.ravel()[0])
            return np.vectorize(lambda s: Sign(s), otypes=[object])(a)
        return Sign(a)

    def divide(self, a, b, out=None, **kw):
        r = np.asarray(a, dtype=object) / np.asarray(b, dtype=object)
        if out is not None:
            out[...] = r
            return out
        return r

    def multiply(self, a, b, out=None, **kw):
        r = np.asarray(a, dtype=object) * np.asarray(b, dtype=object)
        if out is not None:
            out[...] = r
            return out
        return r

    def square(self, a, out=None):
        r = np.asarray(a, dtype=object) ** 2
        if out is not None:
            out[...] = r
            return out
        return r

    def sum(self, a, axis=None, **kw):
        return np.sum(np.asarray(a, dtype=object), axis=axis, **kw)

    def dot(self, a, b):
        return sum(x * y for x, y in zip(np.asarray(a, dtype=object).ravel(), np.asarray(b, dtype=object).ravel()))

    def cross(self, a, b, axis=-1):
        a, b = np.asarray(a, dtype=object), np.asarray(b, dtype=object)
        return np.stack([a[..., 1] * b[..., 2] - a[..., 2] * b[..., 1], a[..., 2] * b[..., 0] - a[..., 0] * b[..., 2],
                         a[..., 0] * b[..., 1] - a[..., 1] * b[..., 0]], axis=-1)


def load_function(relpath, name, extra_globals=None):
    """compile the real source of one top-level function (annotations dropped) with np -> proxy"""
    path = os.path.join(SRC, relpath)
    tree = ast.parse(open(path).read())
    fn = [n for n in tree.body if isinstance(n, ast.FunctionDef) and n.name == name][0]
    fn.returns = None
    for a in fn.args.args + fn.args.kwonlyargs:
        a.annotation = None
    mod = ast.Module(body=[fn], type_ignores=[])
    ast.fix_missing_locations(mod)
    proxy = NPProxy()
    g = {"np": proxy}
    g.update(extra_globals or {})
    exec(compile(mod, path, "exec"), g)
    return g[name], proxy


def coords(n, prefix="x"):
    return np.array([[sp.Symbol(f"{prefix}{i}{c}", real=True) for c in "xyz"] for i in range(n)], dtype=object)


def quaternion_matrix():
    a, b, c, d = sp.symbols("qa qb qc qd", real=True)
    R = sp.Matrix([[a*a+b*b-c*c-d*d, 2*(b*c-a*d), 2*(b*d+a*c)],
                   [2*(b*c+a*d), a*a-b*b+c*c-d*d, 2*(c*d-a*b)],
                   [2*(b*d-a*c), 2*(c*d+a*b), a*a-b*b-c*c+d*d]])
    return R, a*a+b*b+c*c+d*d


def move(X, R=None, t=None):
    out = np.empty_like(X)
    for i in range(X.shape[0]):
        v = sp.Matrix(list(X[i]))
        if R is not None:
            v = R * v
        if t is not None:
            v = v + sp.Matrix(t)
        out[i] = list(v)
    return out


def numerator(sign: Sign, proxy: NPProxy):
    """expr * prod(norm symbols) expanded: a polynomial with the same sign as expr (norms are positive)"""
    e = sign.expr
    for n, _ in proxy.norms:
        e = e * n
    e = sp.expand(sp.simplify(e))
    # any remaining norm symbol appears squared: substitute its definition
    for n, sq in proxy.norms:
        e = sp.expand(e.subs(n**2, sq))
    return e


def norm_free(e, proxy):
    return not any(e.has(n) for n, _ in proxy.norms)
