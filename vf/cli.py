"""./check entry point."""
from __future__ import annotations

import importlib
import os
import sys
import time
import traceback

from . import VERIF
from .core import Report, Ob, ERROR, finish, run_replay


def main(argv):
    import warnings

    warnings.simplefilter("ignore")
    try:
        from rdkit import RDLogger

        RDLogger.DisableLog('rdApp.*')
    except Exception:  # noqa
        pass
    if len(argv) < 1:
        print("usage: check <id> [quick|thorough] | check <id> --replay <path>")
        return 3
    pid = argv[0]
    if len(argv) >= 3 and argv[1] == "--replay":
        rc, out = run_replay(argv[2])
        print(out)
        if rc == 1:
            print(f"VIOLATION property={pid} replay={argv[2]}")
        return rc
    tier = argv[1] if len(argv) > 1 else os.environ.get("VERIF_TIER", "quick")
    if tier not in ("quick", "thorough"):
        tier = "quick"
    seed = int(os.environ.get("VERIF_SEED", "0") or 0)
    t0 = time.time()
    try:
        mod = importlib.import_module(f"vf.props.{pid.lower()}")
        rep, t0 = mod.run(tier, seed)
    except Exception as e:  # a crash of the machinery is exit 3, never a verdict
        traceback.print_exc()
        rep = Report(pid, tier, seed)
        rep.add(Ob(f"{pid}/checker", "proof", ERROR, detail=f"{type(e).__name__}: {e}"))
    return finish(rep, t0)


if __name__ == "__main__":
    sys.exit(main(sys.argv[1:]))
