"""Bounded contracts on derivation operations: C10 (no shared mutable state), C11 (relabelling),
C17 (subgraph / compose / components), C06 (enantiomer), C08 (reaction graphs), C15 (JSON)."""
from __future__ import annotations

import itertools
import random

from ..spec.iso_spec import isomorphic
from ..spec.refmodel import (ATOM_CLASSES, Ref, build_real, coherent, descr_eq, descr_invert, kind_of, raw_state, real_class, snapshot)
from ..spec.refops import apply_real, apply_ref, op_instances
from .harness import Group, ref_code, safe
from .scope import corpus, decorate, mk, random_renaming, skeletons

KINDS = ("MG", "SMG", "CRG", "SCRG")


# ------------------------------------------------------------------------------------------------ C10
def derivations(kind):
    """name -> callable(g) -> derived graph (or list of graphs)"""
    from stereomolgraph.experimental import JSONHandler

    cls = real_class(kind)
    d = {
        "copy()": lambda g: g.copy(),
        "copy-constructor": lambda g: cls(g),
        "relabel_atoms(copy=True)": lambda g: g.relabel_atoms({a: a + 100 for a in list(g.atoms)[:2]}, copy=True),
        "relabel_atoms(identity,copy=True)": lambda g: g.relabel_atoms({}, copy=True),
        "subgraph(all)": lambda g: g.subgraph(list(g.atoms)),
        "compose([g])": lambda g: cls.compose([g]),
        "compose([g,g])": lambda g: cls.compose([g, g]),
    }
    if kind in ("SMG", "SCRG"):
        d["enantiomer()"] = lambda g: g.enantiomer()
    if kind in ("CRG", "SCRG"):
        d["reverse_reaction()"] = lambda g: g.reverse_reaction()
        d["reactant()"] = lambda g: g.reactant()
        d["product()"] = lambda g: g.product()
        d["_ts()"] = lambda g: g._ts()
    d["json round trip"] = lambda g: JSONHandler.json_deserialize(JSONHandler.json_serialize(g))
    return d


def edit_menu(kind, ref: Ref, rng):
    """follow-up edits that are well-formed on `ref`"""
    atoms = list(ref.atoms)
    ops = []
    for a in atoms[:3]:
        ops.append(("set_atom_attribute", a, "x", 41))
        ops.append(("set_atom_attribute", a, "atom_type", "Br"))
        ops.append(("remove_atom", a))
    ops.append(("add_atom", 777, "C", {"y": 1}))
    for b in list(ref.bonds)[:3]:
        x, y = sorted(b)
        ops.append(("set_bond_attribute", x, y, "w", 9))
        ops.append(("remove_bond", x, y))
        if ref.reaction_kind:
            ops.append(("set_bond_attribute", x, y, "reaction", "@FORMED"))
    if len(atoms) >= 2:
        non = [(x, y) for x, y in itertools.combinations(atoms, 2) if frozenset((x, y)) not in ref.bonds]
        if non:
            ops.append(("add_bond", non[0][0], non[0][1], {"w": 1}))
        ops.append(("relabel_inplace", {atoms[0]: atoms[0] + 5000}))
        ops.append(("relabel_inplace", {atoms[0]: atoms[1], atoms[1]: atoms[0]}))
    if ref.stereo_kind:
        for a, d in list(ref.atom_stereo.items())[:2]:
            ops.append(("delete_atom_stereo", a))
            ops.append(("set_atom_stereo", (d[0], d[1], None)))
        for b, d in list(ref.bond_stereo.items())[:2]:
            ops.append(("delete_bond_stereo", tuple(b)))
            ops.append(("set_bond_stereo", (d[0], d[1], None)))
    if ref.kind == "SCRG":
        for a, v in list(ref.atom_changes.items())[:2]:
            for c in v:
                ops.append(("delete_atom_stereo_change", a, c))
            ops.append(("delete_atom_stereo_change", a, None))
            dd = next(iter(v.values()))
            ops.append(("set_atom_stereo_change", {"fleeting": (dd[0], dd[1], None)}))
        for b, v in list(ref.bond_changes.items())[:2]:
            for c in v:
                ops.append(("delete_bond_stereo_change", tuple(b), c))
            ops.append(("delete_bond_stereo_change", tuple(b), None))
    return ops


def run_c10(rep, tier, seed):
    rng = random.Random(seed + 10)
    distinct = 0
    for kind in KINDS:
        ders = derivations(kind)
        groups = {n: Group(rep, f"C10/bounded/{kind}/{n}") for n in ders}
        items = [(n, r) for n, r in corpus(kind, seed) if r.atoms]
        if tier == "quick":
            items = items[::2]
        for name, ref in items:
            distinct += 1
            for dn, der in ders.items():
                src = build_real(ref)
                derived, err = safe(lambda: der(src))
                if err or derived is None:
                    continue  # whether the derivation itself works is the business of C11/C17/C08/C15
                dref = snapshot(derived)
                for side in ("derived", "source"):
                    target_ref = dref if side == "derived" else ref
                    for op in edit_menu(kind_of(derived) if side == "derived" else kind, target_ref, rng):
                        s2 = build_real(ref)
                        d2 = der(s2)
                        edited, untouched = (d2, s2) if side == "derived" else (s2, d2)
                        before = raw_state(untouched)
                        _, e = apply_real(edited, op)
                        after = raw_state(untouched)
                        body = (f"from vf.e3.derive import replay_c10\nok = replay_c10({kind!r}, {ref_code(ref)}, {dn!r}, {side!r}, {op!r})\n")
                        groups[dn].case(before == after, f"{name}: after {dn}, editing the {side} graph with {op} changed the other graph", body,
                                        sample={"graph": name, "derivation": dn, "edit": repr(op), "edited side": side})
        for g in groups.values():
            g.close()
    rep.distinct_nontrivial = distinct


def replay_c10(kind, ref, dn, side, op):
    s2 = build_real(ref)
    d2 = derivations(kind)[dn](s2)
    edited, untouched = (d2, s2) if side == "derived" else (s2, d2)
    before = raw_state(untouched)
    apply_real(edited, op)
    after = raw_state(untouched)
    if before != after:
        for k in before:
            if before[k] != after.get(k):
                print(k, before[k], "->", after.get(k))
    return before == after


# ------------------------------------------------------------------------------------------------ C11
def mappings_for(ref: Ref, rng):
    atoms = list(ref.atoms)
    ms = []
    ms.append(("total-shift", {a: a + 1000 for a in atoms}))
    ms.append(("total-to-0..n", dict(zip(atoms, range(len(atoms))))))
    perm = atoms[:]
    rng.shuffle(perm)
    ms.append(("total-permutation", dict(zip(atoms, perm))))
    ms.append(("weird-ids", random_renaming(ref, rng)))
    if atoms:
        ms.append(("partial-one", {atoms[0]: -5}))
        ms.append(("partial-to-0", {atoms[-1]: 0} if 0 not in atoms or atoms[-1] == 0 else {atoms[-1]: 12345}))
        ms.append(("extra-keys", {atoms[0]: 4242, 987654: 3}))
    if len(atoms) >= 2:
        ms.append(("swap", {atoms[0]: atoms[1], atoms[1]: atoms[0]}))
    ms.append(("empty", {}))
    return ms


def run_c11(rep, tier, seed):
    rng = random.Random(seed + 11)
    distinct = 0
    for kind in KINDS:
        names = ("copy-matches-reference", "inplace-matches-reference", "copy-leaves-source-untouched", "inplace-returns-self",
                 "inverse-restores", "result-usable", "queries-behave-as-on-a-freshly-built-graph")
        G = {n: Group(rep, f"C11/bounded/{kind}/{n}") for n in names}
        for name, ref in corpus(kind, seed):
            if not ref.atoms:
                continue
            distinct += 1
            for mname, m in mappings_for(ref, rng):
                f = lambda x, m=m: m.get(x, x)  # noqa
                if len({f(a) for a in ref.atoms}) != len(ref.atoms):
                    continue
                exp = ref.relabel(f).canon()
                src = build_real(ref)
                before = raw_state(src)
                c, err = safe(lambda: src.relabel_atoms(dict(m), copy=True))
                body = f"from vf.e3.derive import replay_c11\nok = replay_c11({ref_code(ref)}, {m!r}, %r)\n"
                G["copy-matches-reference"].case(not err and snapshot(c).canon() == exp,
                                                 f"{name}/{mname}: relabel_atoms({m}, copy=True) -> {err or snapshot(c).canon()} expected {exp}", body % "copy", sample={"graph": name, "mapping": repr(m)})
                G["copy-leaves-source-untouched"].case(raw_state(src) == before, f"{name}/{mname}: source changed by relabel_atoms(copy=True)", body % "source")
                g2 = build_real(ref)
                res, err2 = safe(lambda: g2.relabel_atoms(dict(m), copy=False))
                G["inplace-matches-reference"].case(not err2 and snapshot(g2).canon() == exp,
                                                    f"{name}/{mname}: relabel_atoms({m}, copy=False) -> {err2 or snapshot(g2).canon()} expected {exp}", body % "inplace")
                G["inplace-returns-self"].case(err2 is not None or res is g2, f"{name}/{mname}: relabel_atoms(copy=False) returned a different object", body % "self")
                if not err:
                    inv = {f(a): a for a in ref.atoms if f(a) != a}
                    back, err3 = safe(lambda: c.relabel_atoms(inv, copy=True))
                    G["inverse-restores"].case(not err3 and snapshot(back).canon() == ref.canon(), f"{name}/{mname}: inverse mapping does not restore the graph: {err3 or snapshot(back).canon()}", body % "inverse")
                    # usable like a freshly built graph
                    def use():
                        probs = coherent(c)
                        if probs:
                            return probs
                        at = list(c.atoms)
                        c == c
                        hash(c)
                        if len(at) >= 2:
                            x, y = at[0], at[-1]
                            if not c.has_bond(x, y):
                                c.add_bond(x, y)
                                c.remove_bond(x, y)
                        c.add_atom(-99999, "H")
                        c.bonded_to(-99999)
                        c.add_bond(-99999, at[0])
                        c.remove_atom(-99999)
                        return coherent(c) or (None if snapshot(c).canon() == exp else ["edits not undone"])
                    # every look-up (present and absent keys) answers / raises as on a freshly built graph and changes nothing
                    for variant, gg in (("copy", src.relabel_atoms(dict(m), copy=True)), ("inplace", build_real(ref).relabel_atoms(dict(m), copy=False))):
                        diffs = query_differences(kind, gg, build_real(ref.relabel(f)))
                        G["queries-behave-as-on-a-freshly-built-graph"].case(not diffs, f"{name}/{mname}/{variant}: {diffs[:3]}", body % f"queries-{variant}")
                    probs, err4 = safe(use)
                    G["result-usable"].case(not err4 and not probs, f"{name}/{mname}: relabelled graph not usable: {err4 or probs}", body % "usable")
        for g in G.values():
            g.close()
    rep.distinct_nontrivial = distinct


def query_differences(kind, g, fresh):
    """runs the read-only look-ups of vf/spec/refops.py:queries on g and on a freshly built graph with the same views:
    same answered / raised status, no look-up may change either graph"""
    from ..spec.refops import queries

    ids = sorted(snapshot(fresh).atoms)[:3] + [-4242]
    out = []
    for (qn, q), (_, q2) in zip(queries(kind, tuple(ids)), queries(kind, tuple(ids))):
        b1, b2 = raw_state(g), raw_state(fresh)
        r1, e1 = safe(lambda: q(g))
        r2, e2 = safe(lambda: q2(fresh))
        if (e1 is None) != (e2 is None) or (e1 is not None and e1.split(":")[0] != e2.split(":")[0]):
            out.append(f"{qn}: {'raised ' + str(e1) if e1 else 'answered'} on the relabelled graph, {'raised ' + str(e2) if e2 else 'answered'} on a fresh one")
        if raw_state(g) != b1:
            out.append(f"{qn} changed the relabelled graph")
        if raw_state(fresh) != b2:
            out.append(f"{qn} changed the fresh graph")
    return out


def replay_c11(ref, m, what):
    f = lambda x: m.get(x, x)  # noqa
    exp = ref.relabel(f).canon()
    if what.startswith("queries-"):
        g = build_real(ref).relabel_atoms(dict(m), copy=(what == "queries-copy"))
        d = query_differences(ref.kind, g, build_real(ref.relabel(f)))
        print(d[:5])
        return not d
    src = build_real(ref)
    before = raw_state(src)
    if what == "inplace" or what == "self":
        res = src.relabel_atoms(dict(m), copy=False)
        print(snapshot(src).canon(), exp)
        return (res is src) if what == "self" else snapshot(src).canon() == exp
    c = src.relabel_atoms(dict(m), copy=True)
    if what == "copy":
        print(snapshot(c).canon(), exp)
        return snapshot(c).canon() == exp
    if what == "source":
        return raw_state(src) == before
    if what == "inverse":
        inv = {f(a): a for a in ref.atoms if f(a) != a}
        return snapshot(c.relabel_atoms(inv, copy=True)).canon() == ref.canon()
    if what == "usable":
        if coherent(c):
            print(coherent(c))
            return False
        at = list(c.atoms)
        c == c
        hash(c)
        c.add_atom(-99999, "H")
        c.bonded_to(-99999)
        c.add_bond(-99999, at[0])
        c.remove_atom(-99999)
        return not coherent(c) and snapshot(c).canon() == exp
    return True


# ------------------------------------------------------------------------------------------------ C17
def induced(ref: Ref, S):
    S = set(S)
    r = Ref(ref.kind)
    r.atoms = {a: dict(v) for a, v in ref.atoms.items() if a in S}
    r.bonds = {b: dict(v) for b, v in ref.bonds.items() if b <= S}
    inside = lambda d: all(x is None or x in S for x in d[1])  # noqa
    r.atom_stereo = {a: d for a, d in ref.atom_stereo.items() if inside(d)}
    r.bond_stereo = {b: d for b, d in ref.bond_stereo.items() if inside(d)}
    r.atom_changes = {a: {c: d for c, d in v.items() if inside(d)} for a, v in ref.atom_changes.items()}
    r.bond_changes = {b: {c: d for c, d in v.items() if inside(d)} for b, v in ref.bond_changes.items()}
    r.atom_changes = {a: v for a, v in r.atom_changes.items() if v}  # an entry without descriptors is no stereo change
    r.bond_changes = {b: v for b, v in r.bond_changes.items() if v}
    return r


def compose_ref(kind, refs):
    r = Ref(kind)
    for x in refs:
        for a, v in x.atoms.items():
            r.atoms[a] = dict(v)
        for b, v in x.bonds.items():
            r.bonds[b] = dict(v)
        r.atom_stereo.update(x.atom_stereo)
        r.bond_stereo.update(x.bond_stereo)
        for a, v in x.atom_changes.items():
            if v:
                r.atom_changes[a] = dict(v)
        for b, v in x.bond_changes.items():
            if v:
                r.bond_changes[b] = dict(v)
    return r


def as_iterable(S, how):
    S = list(S)
    return {"list": lambda: S, "set": lambda: set(S), "tuple": lambda: tuple(S), "iterator": lambda: iter(S),
            "generator": lambda: (x for x in S), "dict-keys": lambda: dict.fromkeys(S).keys()}[how]()


def run_c17(rep, tier, seed):
    rng = random.Random(seed + 17)
    distinct = 0
    hows = ("list", "set", "tuple", "iterator", "generator")
    for kind in KINDS:
        cls = real_class(kind)
        G = {n: Group(rep, f"C17/bounded/{kind}/{n}") for n in
             ("subgraph-is-induced", "subgraph-leaves-source-untouched", "components-partition-into-maximal-bonded-sets",
              "compose-of-component-subgraphs-reproduces", "compose-later-graph-wins", "compose-accepts-one-shot-iterables")}
        for name, ref in corpus(kind, seed):
            distinct += 1
            atoms = list(ref.atoms)
            subsets = []
            if len(atoms) <= (5 if tier == "quick" else 7):
                for k in range(len(atoms) + 1):
                    subsets += list(itertools.combinations(atoms, k))
            else:
                subsets = [tuple(rng.sample(atoms, rng.randint(0, len(atoms)))) for _ in range(24 if tier == "quick" else 120)]
            if tier == "quick" and len(subsets) > 24:
                subsets = rng.sample(subsets, 24)
            for S in subsets:
                S = list(S)
                rng.shuffle(S)
                how = rng.choice(hows)
                g = build_real(ref)
                before = raw_state(g)
                sub, err = safe(lambda: g.subgraph(as_iterable(S, how)))
                exp = induced(ref, S).canon()
                body = f"from vf.e3.derive import replay_c17_sub\nok = replay_c17_sub({ref_code(ref)}, {S!r}, {how!r})\n"
                G["subgraph-is-induced"].case(not err and snapshot(sub).canon() == exp and type(sub) is cls and not coherent(sub),
                                              f"{name}: subgraph({how} {S}) -> {err or snapshot(sub).canon()} expected {exp}", body, sample={"graph": name, "S": S, "as": how})
                G["subgraph-leaves-source-untouched"].case(raw_state(g) == before, f"{name}: subgraph({S}) changed the source", body)
            if not atoms:
                continue
            g = build_real(ref)
            comps, err = safe(lambda: g.connected_components())
            expc = sorted(sorted(c) for c in ref.components())
            bodyc = f"g = build_real({ref_code(ref)})\ngot = sorted(sorted(c) for c in g.connected_components())\nprint(got)\nok = got == {expc!r}\n"
            okc = not err and sorted(sorted(c) for c in comps) == expc
            for a in atoms:
                nc, e2 = safe(lambda: g.node_connected_component(a))
                okc = okc and not e2 and set(nc) == next(c for c in ref.components() if a in c)
            G["components-partition-into-maximal-bonded-sets"].case(okc, f"{name}: components {err or comps} expected {expc}", bodyc)
            if not err and okc:
                # descriptors that straddle components can not be reproduced by composing component subgraphs
                exp_ref = compose_ref(kind, [induced(ref, c) for c in comps])
                for how in ("list", "generator"):
                    parts = [g.subgraph(list(c)) for c in comps]
                    whole, e3 = safe(lambda: cls.compose(as_iterable(parts, how)))
                    bodyw = (f"g = build_real({ref_code(ref)})\nparts = [g.subgraph(list(c)) for c in g.connected_components()]\n"
                             f"whole = type(g).compose({'iter(parts)' if how == 'generator' else 'parts'})\n"
                             f"from vf.e3.derive import compose_ref, induced\nexp = compose_ref({kind!r}, [induced(snapshot(g), c) for c in g.connected_components()])\n"
                             f"print(snapshot(whole).canon()); print(exp.canon())\nok = snapshot(whole).canon() == exp.canon()\n")
                    gname = "compose-of-component-subgraphs-reproduces" if how == "list" else "compose-accepts-one-shot-iterables"
                    G[gname].case(not e3 and snapshot(whole).canon() == exp_ref.canon() and not coherent(whole),
                                  f"{name}: compose({how} of component subgraphs) -> {e3 or snapshot(whole).canon()} expected {exp_ref.canon()}", bodyw)
            # overlapping pieces: later wins
            if len(atoms) >= 2:
                A = atoms[: max(1, len(atoms) * 2 // 3)]
                Bs = atoms[len(atoms) // 3:]
                r1, r2 = induced(ref, A), induced(ref, Bs)
                for a in set(A) & set(Bs):
                    r2.atoms[a]["atom_type"] = 16
                    r2.atoms[a]["tag"] = "later"
                for b in r2.bonds:
                    r2.bonds[b]["w"] = 2
                expo = compose_ref(kind, [r1, r2])
                g1, g2 = build_real(r1), build_real(r2)
                whole, e4 = safe(lambda: cls.compose([g1, g2]))
                bodyo = (f"g1 = build_real({ref_code(r1)}); g2 = build_real({ref_code(r2)})\nwhole = type(g1).compose([g1, g2])\n"
                         f"from vf.e3.derive import compose_ref\nexp = compose_ref({kind!r}, [snapshot(g1), snapshot(g2)])\nprint(snapshot(whole).canon()); print(exp.canon())\n"
                         f"ok = snapshot(whole).canon() == exp.canon() and not coherent(whole)\n")
                G["compose-later-graph-wins"].case(not e4 and snapshot(whole).canon() == expo.canon() and not coherent(whole),
                                                   f"{name}: compose of overlapping pieces -> {e4 or snapshot(whole).canon()} expected {expo.canon()}", bodyo)
        # subgraph on EDITED graphs: states reached by public editing histories (bonds removed under a descriptor, descriptors deleted ...)
        from .history import reachable_states, rebuild
        GE = Group(rep, f"C17/bounded/{kind}/after-editing/subgraph-is-induced")
        seen = set()
        for sref, hist in reachable_states(kind, seed, 6 if tier == "quick" else 60, 12 if tier == "quick" else 30):
            g = rebuild(sref, hist)
            st = snapshot(g)
            key = repr(st.canon())
            if key in seen or not st.atoms:
                continue
            seen.add(key)
            distinct += 1
            atoms = list(st.atoms)
            for S in (atoms, rng.sample(atoms, rng.randint(0, len(atoms)))):
                sub, err = safe(lambda: g.subgraph(list(S)))
                exp = induced(st, S).canon()
                body = (f"from vf.e3.history import rebuild\nfrom vf.e3.derive import induced\ng = rebuild({ref_code(sref)}, {list(hist)!r})\nst = snapshot(g)\n"
                        f"sub = g.subgraph({list(S)!r})\nprint(snapshot(sub).canon()); print(induced(st, {list(S)!r}).canon())\nok = snapshot(sub).canon() == induced(st, {list(S)!r}).canon()\n")
                GE.case(not err and snapshot(sub).canon() == exp, f"after {list(hist)}: subgraph({list(S)}) -> {err or snapshot(sub).canon()} expected {exp}", body, sample={"history": [repr(h) for h in hist]})
        GE.close()
        for g_ in G.values():
            g_.close()
    rep.distinct_nontrivial = distinct


def replay_c17_sub(ref, S, how):
    g = build_real(ref)
    before = raw_state(g)
    sub = g.subgraph(as_iterable(S, how))
    exp = induced(ref, S).canon()
    print(snapshot(sub).canon())
    print(exp)
    return snapshot(sub).canon() == exp and raw_state(g) == before and type(sub) is type(g) and not coherent(sub)


# ------------------------------------------------------------------------------------------------ C06
def run_c06(rep, tier, seed):
    rng = random.Random(seed + 6)
    distinct = 0
    for kind in ("SMG", "SCRG"):
        G = {n: Group(rep, f"C06/bounded/{kind}/{n}") for n in
             ("enantiomer-is-the-mirrored-reference", "original-untouched", "twice-is-identity", "equal-to-enantiomer-iff-achiral")}
        from .scope import ligand_pattern_family
        for rep_i in range(1 if tier == "quick" else 4):
            for name, ref in corpus(kind, seed + rep_i) + (ligand_pattern_family(kind, tier == "quick") if rep_i == 0 else []):
                if not ref.atoms:
                    continue
                distinct += 1
                g = build_real(ref)
                before = raw_state(g)
                e, err = safe(lambda: g.enantiomer())
                exp = ref.mirror()
                body = (f"g = build_real({ref_code(ref)})\ne = g.enantiomer()\nexp = {ref_code(exp)}\nprint(snapshot(e).canon()); print(exp.canon())\n"
                        f"ok = snapshot(e).canon() == exp.canon() and snapshot(e.enantiomer()).canon() == snapshot(g).canon()\n")
                G["enantiomer-is-the-mirrored-reference"].case(not err and snapshot(e).canon() == exp.canon(),
                                                               f"{name}: enantiomer() -> {err or snapshot(e).canon()} expected {exp.canon()}", body, sample=ref.describe())
                G["original-untouched"].case(raw_state(g) == before, f"{name}: enantiomer() modified the original",
                                             f"from vf.spec.refmodel import raw_state\ng = build_real({ref_code(ref)})\nb = raw_state(g); g.enantiomer(); ok = raw_state(g) == b\n")
                if err:
                    continue
                ee, err2 = safe(lambda: e.enantiomer())
                G["twice-is-identity"].case(not err2 and snapshot(ee).canon() == ref.canon(), f"{name}: enantiomer twice -> {err2 or snapshot(ee).canon()}", body)
                if ref.fully_specified():
                    eq, err3 = safe(lambda: g == e)
                    iso = isomorphic(ref, exp)
                    bodyq = f"g = build_real({ref_code(ref)})\ngot = (g == g.enantiomer())\nprint(got, 'oracle says', {iso!r})\nok = got is {iso!r}\n"
                    G["equal-to-enantiomer-iff-achiral"].case(not err3 and eq is iso, f"{name}: g == g.enantiomer() -> {err3 or eq}, mirror-image bijection exists: {iso}", bodyq)
        # the same on EDITED graphs: states reached by public editing histories (descriptors deleted one by one, atoms removed ...)
        from .history import reachable_states, rebuild
        GE = {n: Group(rep, f"C06/bounded/{kind}/after-editing/{n}") for n in ("enantiomer-is-the-mirrored-state", "original-untouched", "twice-is-identity")}
        seen = set()
        for sref, hist in reachable_states(kind, seed, 6 if tier == "quick" else 60, 12 if tier == "quick" else 30):
            g = rebuild(sref, hist)
            st = snapshot(g)
            key = repr(st.canon())
            if key in seen:
                continue
            seen.add(key)
            distinct += 1
            before = raw_state(g)
            e, err = safe(lambda: g.enantiomer())
            exp = st.mirror()
            body = (f"from vf.e3.history import rebuild\ng = rebuild({ref_code(sref)}, {list(hist)!r})\nst = snapshot(g)\ne = g.enantiomer()\n"
                    f"print(snapshot(e).canon()); print(st.mirror().canon())\nok = snapshot(e).canon() == st.mirror().canon() and snapshot(e.enantiomer()).canon() == st.canon()\n")
            GE["enantiomer-is-the-mirrored-state"].case(not err and snapshot(e).canon() == exp.canon(), f"after {list(hist)}: enantiomer() -> {err or snapshot(e).canon()} expected {exp.canon()}",
                                                        body, sample={"history": [repr(h) for h in hist]})
            GE["original-untouched"].case(raw_state(g) == before, f"after {list(hist)}: enantiomer() modified the original",
                                          f"from vf.e3.history import rebuild\nfrom vf.spec.refmodel import raw_state\ng = rebuild({ref_code(sref)}, {list(hist)!r})\nb = raw_state(g)\ntry:\n    g.enantiomer()\nexcept Exception as e_:\n    print(e_)\nok = raw_state(g) == b\n")
            if err:
                continue
            ee, err2 = safe(lambda: e.enantiomer())
            GE["twice-is-identity"].case(not err2 and snapshot(ee).canon() == st.canon(), f"after {list(hist)}: enantiomer twice -> {err2 or snapshot(ee).canon()}", body)
        for g_ in list(G.values()) + list(GE.values()):
            g_.close()
    rep.distinct_nontrivial = distinct


# ------------------------------------------------------------------------------------------------ C08
def rpt_triples(kind, rng, n_per_skeleton):
    """reactant / product / TS reference graphs over a common atom set"""
    sk = [s for s in skeletons() if 2 <= s[1] <= 8 and s[2]]
    base = "SMG" if kind == "SCRG" else "MG"
    for name, n, edges in sk:
        for _ in range(n_per_skeleton):
            es = [rng.choice((6, 7, 1, 8, 17)) for _ in range(n)]
            roles = {e: rng.choice(("plain", "plain", "formed", "broken", "fleeting")) for e in edges}
            r = mk(base, n, [e for e in edges if roles[e] in ("plain", "broken")], es)
            p = mk(base, n, [e for e in edges if roles[e] in ("plain", "formed")], es)
            ts = mk(base, n, edges, es)
            if base == "SMG":
                for g in (r, p, ts):
                    decorate(g, rng, allow_none_parity=False, max_sites=3)
                # make some descriptors agree between the three graphs
                for a, d in list(r.atom_stereo.items()):
                    if rng.random() < 0.5 and a in p.atom_stereo and p.atom_stereo[a][0] == d[0] and set(p.atom_stereo[a][1]) == set(d[1]):
                        p.atom_stereo[a] = d
                        if rng.random() < 0.5:
                            ts.atom_stereo[a] = d
                for b, d in list(r.bond_stereo.items()):
                    if rng.random() < 0.5 and b in p.bonds:
                        p.bond_stereo[b] = d
            yield name, r, p, (ts if rng.random() < 0.6 else None), roles


def same_stereo(got: Ref, exp: Ref):
    if set(got.atom_stereo) != set(exp.atom_stereo) or set(got.bond_stereo) != set(exp.bond_stereo):
        return False
    return all(descr_eq(got.atom_stereo[a], exp.atom_stereo[a]) for a in exp.atom_stereo) and all(
        descr_eq(got.bond_stereo[b], exp.bond_stereo[b]) for b in exp.bond_stereo)


def bare(r: Ref):
    return ({a: v["atom_type"] for a, v in r.atoms.items()}, set(r.bonds))


def run_c08(rep, tier, seed):
    rng = random.Random(seed + 8)
    distinct = 0
    for kind in ("CRG", "SCRG"):
        cls = real_class(kind)
        G = {n: Group(rep, f"C08/bounded/{kind}/{n}") for n in
             ("from_graphs-does-not-raise", "reactant-and-product-are-the-originals", "formed-broken-fleeting-sets", "reverse-swaps-reactant-and-product",
              "reverse-keeps-fleeting", "reverse-twice-is-identity")}
        for name, r, p, ts, roles in rpt_triples(kind, rng, 3 if tier == "quick" else 20):
            distinct += 1
            gr, gp = build_real(r), build_real(p)
            gts = build_real(ts) if ts is not None else None
            crg, err = safe(lambda: cls.from_graphs(gr, gp, gts))
            args = f"{ref_code(r)}, {ref_code(p)}, {ref_code(ts) if ts is not None else None}"
            body = f"from vf.e3.derive import replay_c08\nok = replay_c08({kind!r}, {args}, %r)\n"
            G["from_graphs-does-not-raise"].case(not err, f"{name}: from_graphs raised {err}; r={r.describe()} p={p.describe()} ts={ts.describe() if ts else None}", body % "build",
                                                 sample={"skeleton": name, "roles": {str(k): v for k, v in roles.items()}})
            if err:
                continue
            ok, detail = c08_checks(kind, crg, r, p, ts)
            for k, (o, d) in ok.items():
                G[k].case(o, f"{name}: {d}; r={r.describe()} p={p.describe()} ts={ts.describe() if ts else None}", body % k)
        # reverse_reaction() on EDITED reaction graphs (states reached by public editing histories)
        from .history import reachable_states, rebuild
        GE = {n: Group(rep, f"C08/bounded/{kind}/after-editing/{n}") for n in ("reverse-swaps-roles-and-keeps-the-rest", "reverse-twice-is-identity", "original-untouched")}
        seen = set()
        for sref, hist in reachable_states(kind, seed, 6 if tier == "quick" else 60, 12 if tier == "quick" else 30):
            g = rebuild(sref, hist)
            st = snapshot(g)
            key = repr(st.canon())
            if key in seen:
                continue
            seen.add(key)
            distinct += 1
            before = raw_state(g)
            rev, err = safe(lambda: g.reverse_reaction())
            exp = reversed_ref(st)
            body = (f"from vf.e3.history import rebuild\nfrom vf.e3.derive import reversed_ref\ng = rebuild({ref_code(sref)}, {list(hist)!r})\nst = snapshot(g)\nrev = g.reverse_reaction()\n"
                    f"print(snapshot(rev).canon()); print(reversed_ref(st).canon())\nok = snapshot(rev).canon() == reversed_ref(st).canon() and snapshot(rev.reverse_reaction()).canon() == st.canon()\n")
            GE["reverse-swaps-roles-and-keeps-the-rest"].case(not err and snapshot(rev).canon() == exp.canon(), f"after {list(hist)}: reverse_reaction() -> {err or snapshot(rev).canon()} expected {exp.canon()}",
                                                              body, sample={"history": [repr(h) for h in hist]})
            GE["original-untouched"].case(raw_state(g) == before, f"after {list(hist)}: reverse_reaction() modified the original",
                                          f"from vf.e3.history import rebuild\nfrom vf.spec.refmodel import raw_state\ng = rebuild({ref_code(sref)}, {list(hist)!r})\nb = raw_state(g)\ntry:\n    g.reverse_reaction()\nexcept Exception as e_:\n    print(e_)\nok = raw_state(g) == b\n")
            if err:
                continue
            rr, err2 = safe(lambda: rev.reverse_reaction())
            GE["reverse-twice-is-identity"].case(not err2 and snapshot(rr).canon() == st.canon(), f"after {list(hist)}: reverse twice -> {err2 or snapshot(rr).canon()}", body)
        for g_ in list(G.values()) + list(GE.values()):
            g_.close()
    rep.distinct_nontrivial = distinct


def reversed_ref(st: Ref):
    """reference of reverse_reaction(): formed <-> broken on bonds and inside stereo changes, everything else kept"""
    sw = {"formed": "broken", "broken": "formed", "fleeting": "fleeting"}
    r = st.copy()
    for b, at in r.bonds.items():
        if at.get("reaction") in sw:
            at["reaction"] = sw[at["reaction"]]
    r.atom_changes = {a: {sw[c]: d for c, d in v.items()} for a, v in st.atom_changes.items()}
    r.bond_changes = {b: {sw[c]: d for c, d in v.items()} for b, v in st.bond_changes.items()}
    return r


def c08_checks(kind, crg, r, p, ts):
    out = {}
    R, e1 = safe(lambda: snapshot(crg.reactant()))
    P, e2 = safe(lambda: snapshot(crg.product()))
    okrp = not e1 and not e2 and bare(R) == bare(r) and bare(P) == bare(p)
    d = f"reactant()/product(): {e1 or ''} {e2 or ''}"
    if okrp and kind == "SCRG":
        okrp = same_stereo(R, r) and same_stereo(P, p)
        d = f"stereo of reactant()/product() differs: reactant {R.atom_stereo} {R.bond_stereo} vs {r.atom_stereo} {r.bond_stereo}; product {P.atom_stereo} {P.bond_stereo} vs {p.atom_stereo} {p.bond_stereo}"
    out["reactant-and-product-are-the-originals"] = (okrp, d)
    tsb = set(ts.bonds) if ts is not None else set(r.bonds) | set(p.bonds)
    fb, e3 = safe(lambda: (set(crg.get_formed_bonds()), set(crg.get_broken_bonds()), set(crg.get_fleeting_bonds())))
    exp = (set(p.bonds) - set(r.bonds), set(r.bonds) - set(p.bonds), tsb - set(r.bonds) - set(p.bonds))
    out["formed-broken-fleeting-sets"] = (not e3 and fb == exp, f"formed/broken/fleeting {e3 or fb} expected {exp}")
    rev, e4 = safe(lambda: crg.reverse_reaction())
    if e4:
        out["reverse-swaps-reactant-and-product"] = (False, f"reverse_reaction raised {e4}")
        return out, ""
    RR, PP = snapshot(rev.reactant()), snapshot(rev.product())
    oksw = bare(RR) == bare(p) and bare(PP) == bare(r)
    if oksw and kind == "SCRG":
        oksw = same_stereo(RR, p) and same_stereo(PP, r)
    out["reverse-swaps-reactant-and-product"] = (oksw, f"reverse: reactant {RR.canon()} product {PP.canon()}")
    okf = set(rev.get_fleeting_bonds()) == exp[2]
    if kind == "SCRG":
        s0, s1 = snapshot(crg), snapshot(rev)
        fl = lambda s: ({a: v.get("fleeting") for a, v in s.atom_changes.items() if v.get("fleeting")}, {b: v.get("fleeting") for b, v in s.bond_changes.items() if v.get("fleeting")})  # noqa
        okf = okf and fl(s0) == fl(s1) and same_stereo(snapshot(rev._ts()), snapshot(crg._ts()))
    out["reverse-keeps-fleeting"] = (okf, "fleeting bonds or fleeting stereo changed by reverse_reaction")
    rr, e5 = safe(lambda: rev.reverse_reaction())
    okt = not e5
    if okt:
        a, b = snapshot(rr), snapshot(crg)
        okt = bare(a) == bare(b) and {k: a.role(k) for k in a.bonds} == {k: b.role(k) for k in b.bonds}
        if kind == "SCRG":
            okt = okt and same_stereo(a, b) and set(a.atom_changes) == set(b.atom_changes) and set(a.bond_changes) == set(b.bond_changes) and all(
                set(a.atom_changes[k]) == set(b.atom_changes[k]) and all(descr_eq(a.atom_changes[k][c], b.atom_changes[k][c]) for c in b.atom_changes[k]) for k in b.atom_changes) and all(
                set(a.bond_changes[k]) == set(b.bond_changes[k]) and all(descr_eq(a.bond_changes[k][c], b.bond_changes[k][c]) for c in b.bond_changes[k]) for k in b.bond_changes)
    out["reverse-twice-is-identity"] = (okt, f"reverse twice: {e5 or 'differs from the original'}")
    return out, ""


def replay_c08(kind, r, p, ts, what):
    cls = real_class(kind)
    try:
        crg = cls.from_graphs(build_real(r), build_real(p), build_real(ts) if ts is not None else None)
    except Exception as e:  # noqa
        print("from_graphs raised", type(e).__name__, e)
        return False
    if what == "build":
        return True
    out, _ = c08_checks(kind, crg, r, p, ts)
    print(out.get(what))
    return out.get(what, (True, ""))[0]


# ------------------------------------------------------------------------------------------------ C15
def c15_sequence(tier, seed):
    """the graphs serialised by run_c15, in order (deterministic in tier and seed)"""
    rng = random.Random(seed + 15)
    for kind in KINDS:
        for rep_i in range(1 if tier == "quick" else 4):
            for name, ref0 in corpus(kind, seed + rep_i):
                for weird in (False, True):
                    yield kind, name, (ref0.relabel(random_renaming(ref0, rng).get) if weird and ref0.atoms else ref0)


def c15_case(ref):
    from stereomolgraph.experimental import JSONHandler

    g = build_real(ref)
    h, err = safe(lambda: JSONHandler.json_deserialize(JSONHandler.json_serialize(g)))
    okv = not err and type(h) is type(g) and snapshot(h).canon() == ref.canon()
    eq = None
    if okv and ref.atoms:
        eq, e2 = safe(lambda: (h == g) and hash(h) == hash(g))
        eq = eq is True
    return okv, eq, (err or (snapshot(h).canon() if h is not None else None))


def replay_c15_sequence(tier, seed, index, what):
    """the serialiser is exercised on the same graphs in the same order as the check did (a defect may depend on what was
    serialised earlier in the process), the verdict is that of the index-th graph"""
    for i, (kind, name, ref) in enumerate(c15_sequence(tier, seed)):
        okv, eq, got = c15_case(ref)
        if i == index:
            print(kind, name, got, "expected", ref.canon())
            return okv if what == "views" else (eq is not False)
    return True


def run_c15(rep, tier, seed):
    distinct = 0
    G = {}
    for i, (kind, name, ref) in enumerate(c15_sequence(tier, seed)):
        for n in ("round-trip-views-identical", "round-trip-equal-and-same-hash"):
            G.setdefault((kind, n), Group(rep, f"C15/bounded/{kind}/{n}"))
        distinct += 1
        okv, eq, got = c15_case(ref)
        body = f"from vf.e3.derive import replay_c15_sequence\nok = replay_c15_sequence({tier!r}, {seed!r}, {i}, %r)\n"
        G[(kind, "round-trip-views-identical")].case(okv, f"{name}: JSON round trip -> {got} expected {ref.canon()}", body % "views", sample=ref.describe())
        if eq is not None:
            G[(kind, "round-trip-equal-and-same-hash")].case(eq, f"{name}: deserialised graph not equal / hash differs", body % "eqhash")
    for g_ in G.values():
        g_.close()
    rep.distinct_nontrivial = distinct
