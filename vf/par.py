"""Process-parallel obligation generation/discharge (16 cores).  Workers return plain-data Ob lists."""
from __future__ import annotations

import importlib
import multiprocessing as mp
import os
import traceback

_world = None


def _work(job):
    modname, fname, args = job
    from .core import ERROR, Ob, Report
    from .pyvc.world import World

    global _world
    if _world is None:
        _world = World()
    rep = Report("?", "?", 0)
    try:
        mod = importlib.import_module(modname)
        getattr(mod, fname)(rep, _world, *args)
    except Exception as e:  # noqa
        rep.add(Ob(f"{modname}.{fname}{args!r}", "proof", ERROR, detail=f"{type(e).__name__}: {e}\n{traceback.format_exc()[-1200:]}"))
    return rep.obs, getattr(rep, "traces_validated", 0)


def pmap(modname, tasks, procs=None):
    procs = procs or int(os.environ.get("VF_PROCS", "14"))
    jobs = [(modname, f, a) for f, a in tasks]
    if procs <= 1 or len(jobs) <= 1:
        return [_work(j) for j in jobs]
    ctx = mp.get_context("fork")
    with ctx.Pool(procs) as pool:
        return pool.map(_work, jobs, chunksize=1)
