"""Bounded contracts for C05 (isomorphism enumeration) and C16 (hash separation)."""
from __future__ import annotations

import itertools
import random
from collections import Counter

from ..spec.iso_spec import isomorphisms
from ..spec.refmodel import Ref, build_real, real_class, snapshot
from .harness import Group, ref_code, safe
from .scope import all_small, assign_roles, corpus, decorate, mk, random_renaming, respell, skeletons

KINDS = ("MG", "SMG", "CRG", "SCRG")


def unambiguous(ref):
    """no two descriptors of the graph range over the same atoms (then 'the descriptor is preserved' has one
    meaning even for unspecified parities, which compare by atom set only)"""
    ds = list(ref.atom_stereo.values()) + list(ref.bond_stereo.values())
    for v in list(ref.atom_changes.values()) + list(ref.bond_changes.values()):
        ds += list(v.values())
    keys = [tuple(sorted(map(repr, d[1]))) for d in ds]
    return len(set(keys)) == len(keys)


def enum_real(ga, gb, labels, stereo, stereo_change):
    from stereomolgraph.algorithms.isomorphism import vf2pp_all_isomorphisms

    return [dict(m) for m in vf2pp_all_isomorphisms(ga, gb, atom_labels=labels, stereo=stereo, stereo_change=stereo_change)]


def canon_maps(ms):
    return sorted(tuple(sorted(m.items())) for m in ms)


def c05_case(ra: Ref, rb: Ref, labels, stereo, stereo_change, oa=None, ob=None):
    ga, gb = build_real(ra, oa), build_real(rb, ob)
    got, err = safe(lambda: enum_real(ga, gb, labels, stereo, stereo_change))
    exp = list(isomorphisms(ra, rb, stereo=stereo, stereo_change=stereo_change, roles=False, labels=labels))
    if err:
        return False, f"enumerator raised {err}"
    cg, ce = canon_maps(got), canon_maps(exp)
    if len(set(cg)) != len(cg):
        return False, "a mapping was yielded twice"
    for m in got:
        if set(m) != set(ra.atoms) or set(m.values()) != set(rb.atoms):
            return False, f"not a bijection: {m}"
    if cg != ce:
        missing = [m for m in ce if m not in cg][:2]
        extra = [m for m in cg if m not in ce][:2]
        return False, f"enumeration differs from brute force: {len(cg)} vs {len(ce)}; missing {missing}; invalid {extra}"
    return True, ""


def c05_body(ra, rb, labels, stereo, stereo_change, oa=None, ob=None):
    return (f"from vf.e3.isohash import c05_case\nok, why = c05_case({ref_code(ra)}, {ref_code(rb)}, {labels!r}, {stereo!r}, {stereo_change!r}, {oa!r}, {ob!r})\nprint(why)\n")


def bookkeeping_case(ra: Ref, rb: Ref, labels, stereo, stereo_change, oa=None, ob=None):
    """Side-car run-time contract on the REAL _update_state / _revert_state (the module looks both up at call time, so the
    wrappers are what the real main loop calls): after every call, for both graphs,
        frontier = unmapped atoms with a mapped neighbour,   external = the other unmapped atoms
    - the post-condition proved for _update_state in e1_vf2 and, for _revert_state, 'the bookkeeping is restored exactly on
    backtrack' (the invariant determines both sets from the mapping).  Returns (ok, why, number of contract evaluations)."""
    import stereomolgraph.algorithms.isomorphism as iso

    ga, gb = build_real(ra, oa), build_real(rb, ob)
    real_u, real_r = iso._update_state, iso._revert_state
    bad, n = [], [0]

    def inv(which, a, b, state, params):
        n[0] += 1
        nb1, nb2 = params[0], params[1]
        m, im, f1, e1, f2, e2 = state
        for tag, nb, mp, f, e in (("1", nb1, m, f1, e1), ("2", nb2, im, f2, e2)):
            ef = {x for x in nb if x not in mp and any(y in mp for y in nb[x])}
            ee = {x for x in nb if x not in mp and x not in ef}
            if (set(f) != ef or set(e) != ee) and not bad:
                bad.append(f"after {which}({a}, {b}) with mapping {dict(m)}: frontier{tag}={sorted(f)} expected {sorted(ef)}, external{tag}={sorted(e)} expected {sorted(ee)}")

    def upd(a, b, state, params):
        r = real_u(a, b, state, params)
        inv("_update_state", a, b, state, params)
        return r

    def rev(a, b, state, params):
        r = real_r(a, b, state, params)
        inv("_revert_state", a, b, state, params)
        return r

    iso._update_state, iso._revert_state = upd, rev
    try:
        _, err = safe(lambda: enum_real(ga, gb, labels, stereo, stereo_change))
    finally:
        iso._update_state, iso._revert_state = real_u, real_r
    if bad:
        return False, bad[0], n[0]
    return True, "", n[0]


def bookkeeping_body(ra, rb, labels, stereo, stereo_change, oa=None, ob=None):
    return (f"from vf.e3.isohash import bookkeeping_case\nok, why, n = bookkeeping_case({ref_code(ra)}, {ref_code(rb)}, {labels!r}, {stereo!r}, {stereo_change!r}, {oa!r}, {ob!r})\nprint(why, n)\n")


def run_c05(rep, tier, seed):
    rng = random.Random(seed + 5)
    distinct = 0
    # exhaustive small pairs (plain graphs, default labels and uniform labels)
    nmax = 3 if tier == "quick" else 4  # thorough: all 1 099 labelled graphs on <= 4 atoms, about 1 M ordered pairs per class
    for kind in ("MG", "SMG"):
        refs = list(all_small(kind, nmax))
        for lab in ("default-labels", "uniform-labels"):
            grp = Group(rep, f"C05/bounded/{kind}/all-ordered-pairs-n<={nmax}/{lab}")
            for ra, rb in itertools.product(refs, repeat=2):
                if len(ra.atoms) != len(rb.atoms):
                    continue
                if nmax > 3 and lab == "uniform-labels" and len(ra.bonds) != len(rb.bonds):
                    continue  # thorough tier: the second label mode on pairs with equal bond counts only (time)
                labels = None if lab == "default-labels" else ({a: 0 for a in ra.atoms}, {a: 0 for a in rb.atoms})
                ok, why = c05_case(ra, rb, labels, kind == "SMG", False)
                grp.case(ok, f"{why}: {ra.describe()} vs {rb.describe()}", c05_body(ra, rb, labels, kind == "SMG", False))
            grp.close()
            distinct += len(refs)
    # structured corpus: automorphism groups and renamed copies, disconnected graphs with overlapping ids
    for kind in KINDS:
        st, sc = kind in ("SMG", "SCRG"), kind == "SCRG"
        G = {n: Group(rep, f"C05/bounded/{kind}/{n}") for n in
             ("automorphisms", "renamed-copy", "some-parities-unspecified-on-one-side", "one-descriptor-missing-on-one-side", "overlapping-identifier-sets", "caller-labels", "unrelated-pairs", "without-stereo-flags")}
        items = corpus(kind, seed)
        BK = Group(rep, f"C05/bounded/{kind}/frontier-and-external-sets-follow-the-mapping-after-every-update-and-revert")
        for name, ref in items:
            if len(ref.atoms) > 8:
                continue
            distinct += 1
            # descriptor-preserving enumeration is only demanded for fully specified parities: a descriptor
            # with unspecified parity equals every descriptor over the same atoms (C04), so 'preserved' is ambiguous
            fs = ref.fully_specified()
            st, sc = (kind in ("SMG", "SCRG") and fs), (kind == "SCRG" and fs)
            ok, why = c05_case(ref, ref, None, st, sc)
            G["automorphisms"].case(ok, f"{name}: {why} {ref.describe()}", c05_body(ref, ref, None, st, sc), sample={"graph": name})
            ok, why, nev = bookkeeping_case(ref, ref, None, st, sc)
            BK.case(ok, f"{name}: {why}", bookkeeping_body(ref, ref, None, st, sc))
            BK.n += max(nev - 1, 0)
            if not ref.atoms:
                continue
            f = random_renaming(ref, rng)
            rb = respell(ref, rng).relabel(f.get) if ref.fully_specified() else ref.relabel(f.get)
            o = rng.randrange(10**6)
            ok, why, nev = bookkeeping_case(ref, rb, None, False, False, None, o)
            BK.case(ok, f"{name} vs renamed copy: {why}", bookkeeping_body(ref, rb, None, False, False, None, o))
            BK.n += max(nev - 1, 0)
            ok, why = c05_case(ref, rb, None, st, sc, None, o)
            G["renamed-copy"].case(ok, f"{name}: {why} {ref.describe()} vs {rb.describe()}", c05_body(ref, rb, None, st, sc, None, o))
            if st and unambiguous(ref) and ref.atom_stereo:
                # the same graph with the parity of one ATOM-centred descriptor erased: an unspecified descriptor equals every
                # descriptor over the same atoms (C04); for an atom-centred descriptor in these graphs the atom set fixes the centre
                re_ = rb.copy()
                for kk in list(re_.atom_stereo)[:1]:
                    dd = re_.atom_stereo[kk]
                    re_.atom_stereo[kk] = (dd[0], dd[1], None)
                for x, y in ((ref, re_), (re_, ref)):
                    ok, why = c05_case(x, y, None, st, sc)
                    G["some-parities-unspecified-on-one-side"].case(ok, f"{name}: {why} {x.describe()} vs {y.describe()}", c05_body(x, y, None, st, sc))
            if st and (ref.atom_stereo or ref.bond_stereo):
                # the renamed copy with ONE descriptor removed: same connectivity, different descriptor sets, both argument orders
                rm = rb.copy()
                if rm.atom_stereo and (not rm.bond_stereo or rng.random() < 0.5):
                    del rm.atom_stereo[rng.choice(list(rm.atom_stereo))]
                else:
                    del rm.bond_stereo[rng.choice(list(rm.bond_stereo))]
                for x, y in ((ref, rm), (rm, ref)):
                    ok, why = c05_case(x, y, None, st, sc)
                    G["one-descriptor-missing-on-one-side"].case(ok, f"{name}: {why} {x.describe()} vs {y.describe()}", c05_body(x, y, None, st, sc))
            # the two identifier sets overlap but are shifted (u of g1 is also an atom of g2)
            atoms = list(ref.atoms)
            sh = dict(zip(atoms, atoms[1:] + atoms[:1]))
            rc = ref.relabel(sh.get)
            ok, why = c05_case(ref, rc, None, st, sc, None, o)
            G["overlapping-identifier-sets"].case(ok, f"{name}: {why} {ref.describe()} vs {rc.describe()}", c05_body(ref, rc, None, st, sc, None, o))
            lab = ({a: rng.randrange(2) for a in ref.atoms},)
            labels = (lab[0], {sh[a]: v for a, v in lab[0].items()})
            ok, why = c05_case(ref, rc, labels, st, sc)
            G["caller-labels"].case(ok, f"{name}: {why} labels={labels}", c05_body(ref, rc, labels, st, sc))
            if st:
                ok, why = c05_case(ref, rc, None, False, False)
                G["without-stereo-flags"].case(ok, f"{name}: {why}", c05_body(ref, rc, None, False, False))
        refs = [r for _, r in items if 0 < len(r.atoms) <= 7 and r.fully_specified()]
        st, sc = kind in ("SMG", "SCRG"), kind == "SCRG"
        for _ in range(40 if tier == "quick" else 400):
            ra, rb = rng.choice(refs), rng.choice(refs)
            if len(ra.atoms) == len(rb.atoms):
                ok, why = c05_case(ra, rb, None, st, sc)
                G["unrelated-pairs"].case(ok, f"{why}: {ra.describe()} vs {rb.describe()}", c05_body(ra, rb, None, st, sc))
                ok, why, nev = bookkeeping_case(ra, rb, None, st, sc)
                BK.case(ok, f"unrelated pair: {why}", bookkeeping_body(ra, rb, None, st, sc))
                BK.n += max(nev - 1, 0)
        for g in G.values():
            g.close()
        BK.close()
    # topological symmetry number
    grp = Group(rep, "C05/bounded/SMG/topological_symmetry_number-counts-stereo-automorphisms")
    from stereomolgraph.experimental import topological_symmetry_number

    for name, ref in corpus("SMG", seed):
        if not ref.atoms or not ref.fully_specified() or len(ref.atoms) > 8:
            continue
        exp = len(list(isomorphisms(ref, ref, stereo=True, stereo_change=False, roles=False)))
        g = build_real(ref)
        got, err = safe(lambda: topological_symmetry_number(g))
        body = (f"from stereomolgraph.experimental import topological_symmetry_number\ng = build_real({ref_code(ref)})\n"
                f"try:\n    got = topological_symmetry_number(g)\nexcept Exception as e:\n    got = 'raised %s: %s' % (type(e).__name__, e)\nprint(got, 'expected', {exp})\nok = got == {exp}\n")
        grp.case(not err and got == exp, f"{name}: topological_symmetry_number -> {err or got}, oracle {exp}", body, sample={"graph": name, "expected": exp})
    grp.close()
    rep.distinct_nontrivial = distinct


# ------------------------------------------------------------------------------------------------ C16
def env_multiset(r: Ref, bonds=None):
    bonds = set(r.bonds) if bonds is None else bonds
    out = []
    for a, v in r.atoms.items():
        nb = sorted(r.atoms[next(iter(b - {a}))]["atom_type"] for b in bonds if a in b)
        out.append((v["atom_type"], tuple(nb)))
    return Counter(out)


def run_c16(rep, tier, seed):
    rng = random.Random(seed + 16)
    distinct = 0
    # (i) different multiset of (element, elements of bonded neighbours)
    for kind in KINDS:
        grp = Group(rep, f"C16/bounded/{kind}/different-neighbourhood-multisets-different-hashes")
        refs = list(all_small(kind, 3, elems=(6, 7, 1)))
        if tier != "quick":
            refs += [r for r in all_small(kind, 4, elems=(6, 1)) if len(r.atoms) == 4]
        for name, n, edges in skeletons():
            if n >= 2:
                for _ in range(2):
                    refs.append(mk(kind, n, edges, [rng.choice((6, 7, 1, 8, 9)) for _ in range(n)]))
        # single terminal-atom substitutions
        for name, n, edges in skeletons():
            if n >= 3 and edges:
                es = [6] * n
                base = mk(kind, n, edges, es)
                deg = {a: len(base.nbr(a)) for a in base.atoms}
                terms = [a for a, d in deg.items() if d == 1][:2]
                for t in terms:
                    for e in (1, 9):
                        m = base.copy()
                        m.atoms[t]["atom_type"] = e
                        refs.append(m)
                refs.append(base)
        hashes = []
        for r in refs:
            if not r.atoms:
                continue
            h, err = safe(lambda: hash(build_real(r)))
            hashes.append((r, env_multiset(r), h))
        distinct += len(hashes)
        by_hash = {}
        for r, ms, h in hashes:
            by_hash.setdefault(h, []).append((r, ms))
        n_pairs = 0
        for h, lst in by_hash.items():
            for (r1, m1), (r2, m2) in itertools.combinations(lst, 2):
                if m1 != m2:
                    body = f"a = build_real({ref_code(r1)}); b = build_real({ref_code(r2)})\nprint(hash(a), hash(b))\nok = hash(a) != hash(b)\n"
                    grp.case(False, f"hash collision {h} although the (element, neighbour elements) multisets differ: {r1.describe()} vs {r2.describe()}", body)
        grp.n += len(hashes) * (len(hashes) - 1) // 2
        grp.samples.append(f"{len(hashes)} graphs, all pairs with different multisets")
        grp.close()
    # (ii) the two stereoisomers of a single stereogenic unit
    for kind in ("SMG", "SCRG"):
        G = {n: Group(rep, f"C16/bounded/{kind}/single-stereogenic-unit/{n}") for n in
             ("tetrahedral-centre-with-four-element-distinct-ligands", "double-bond/ends-share-no-substituent-element",
              "double-bond/ends-share-one-substituent-element", "double-bond/same-two-substituent-elements-on-both-ends")}
        cases = []
        lig = (1, 9, 17, 35, 8, 7, 16, 53)
        perms4 = list(itertools.permutations(range(4)))
        for perm in perms4 if tier != "quick" else perms4[::3]:
            for extra in (0, 1, 2):
                # tetrahedral centre 0 with ligands 1..4 of distinct elements, optionally extended by a tail on ligand 4
                n = 5 + extra
                edges = [(0, i) for i in range(1, 5)] + [(4 + i, 5 + i) for i in range(extra)]
                es = [6] + [lig[i] for i in perm] + [6] * extra
                if extra:
                    es[4] = 6
                    es[-1] = 53
                base = mk(kind, n, edges, es)
                a, b = base.copy(), base.copy()
                a.atom_stereo[0] = ("Tetrahedral", (0, 1, 2, 3, 4), 1)
                b.atom_stereo[0] = ("Tetrahedral", (0, 1, 2, 3, 4), -1)
                if len({es[1], es[2], es[3], es[4] if not extra else "tail"}) == 4:
                    cases.append(("tetrahedral-centre-with-four-element-distinct-ligands", a, b))
        allsubs = [x for x in itertools.product((1, 9, 17, 35, 8), repeat=4) if x[0] != x[1] and x[2] != x[3]]
        for subs in allsubs if tier != "quick" else allsubs[::3]:
            # X(0)Y(1)C(2)=C(3)Z(4)W(5), substituents on each end element-distinct
            base = mk(kind, 6, [(0, 2), (1, 2), (2, 3), (3, 4), (3, 5)], [subs[0], subs[1], 6, 6, subs[2], subs[3]])
            a, b = base.copy(), base.copy()
            a.bond_stereo[frozenset((2, 3))] = ("PlanarBond", (0, 1, 2, 3, 4, 5), 0)
            b.bond_stereo[frozenset((2, 3))] = ("PlanarBond", (0, 1, 2, 3, 5, 4), 0)
            common = len({subs[0], subs[1]} & {subs[2], subs[3]})
            gname = ("double-bond/ends-share-no-substituent-element", "double-bond/ends-share-one-substituent-element",
                     "double-bond/same-two-substituent-elements-on-both-ends")[common]
            cases.append((gname, a, b))
        for gname, a, b in cases:
            distinct += 1
            ha, hb = hash(build_real(a)), hash(build_real(b))
            body = f"a = build_real({ref_code(a)}); b = build_real({ref_code(b)})\nprint(hash(a), hash(b))\nok = hash(a) != hash(b)\n"
            G[gname].case(ha != hb, f"the two stereoisomers hash equal ({ha}): {a.describe()} vs {b.describe()}", body, sample=a.describe())
        for g in G.values():
            g.close()
    # (iii) reactions whose reactants / products / TS differ in the multiset
    for kind in ("CRG", "SCRG"):
        grp = Group(rep, f"C16/bounded/{kind}/reactions-with-different-reactant-product-or-TS-multisets")
        reactions = []
        for name, n, edges in skeletons():
            if not (2 <= n <= 6) or not edges:
                continue
            for _ in range(3 if tier == "quick" else 12):
                es = [rng.choice((6, 7, 1, 8)) for _ in range(n)]
                base = mk(kind, n, edges, es)
                for r in assign_roles(base, rng):
                    reactions.append(r)
                    rev = r.copy()
                    for b, v in rev.bonds.items():
                        if v.get("reaction") == "formed":
                            v["reaction"] = "broken"
                        elif v.get("reaction") == "broken":
                            v["reaction"] = "formed"
                    reactions.append(rev)
        sig = []
        for r in reactions:
            rb = {b for b in r.bonds if r.role(b) in ("plain", "broken")}
            pb = {b for b in r.bonds if r.role(b) in ("plain", "formed")}
            h, err = safe(lambda: hash(build_real(r)))
            sig.append((r, (frozenset(env_multiset(r, rb).items()), frozenset(env_multiset(r, pb).items()), frozenset(env_multiset(r).items())), h))
        distinct += len(sig)
        byh = {}
        for r, s, h in sig:
            byh.setdefault(h, []).append((r, s))
        for h, lst in byh.items():
            for (r1, s1), (r2, s2) in itertools.combinations(lst, 2):
                if s1 != s2:
                    body = f"a = build_real({ref_code(r1)}); b = build_real({ref_code(r2)})\nprint(hash(a), hash(b))\nok = hash(a) != hash(b)\n"
                    grp.case(False, f"reaction hash collision {h}: {r1.describe()} vs {r2.describe()}", body)
        grp.n += len(sig) * (len(sig) - 1) // 2
        grp.samples.append(f"{len(sig)} reaction graphs incl. each reaction's reverse")
        grp.close()
    rep.distinct_nontrivial = distinct
