"""E1 obligations around graph equality that do not need the isomorphism search (C02)."""
from __future__ import annotations

import time

import z3

from ..core import DISCHARGED, ERROR, FAILED, Ob
from ..pyvc import graphmodel as GM
from ..pyvc import heap as H
from ..pyvc.interp import Interp, OutOfSubset
from ..pyvc.heap import Heap, heap_of

CLASSES = ("MolGraph", "StereoMolGraph", "CondensedReactionGraph", "StereoCondensedReactionGraph")
REL = {"MolGraph": "graphs/mg.py", "StereoMolGraph": "graphs/smg.py", "CondensedReactionGraph": "graphs/crg.py", "StereoCondensedReactionGraph": "graphs/scrg.py"}


def ob_cross_class(rep, world, c1, c2):
    """`a == b` for graphs of two DIFFERENT classes: every path returns False (each __eq__ answers NotImplemented for a
    foreign type, Python then falls back to identity) - for arbitrary graphs, no isomorphism search is reached"""
    name = f"C02/{REL[c1]}:{c1}.__eq__/other-is-a-{c2}-never-equal"
    it = Interp(world)
    GM.install(it)
    t = time.time()

    def thunk(interp, handles):
        interp.state["heap"] = Heap("pre")
        a, b = GM.sym_graph(interp, c1, "a_"), GM.sym_graph(interp, c2, "b_")
        return interp.py_eq(a, b)

    try:
        paths = it.run(thunk)
    except OutOfSubset as e:
        # the path went past the type guard into the isomorphism machinery: the guard accepts a foreign class
        rep.add(Ob(name, "proof", FAILED, "pyvc", time.time() - t, detail=f"comparison of a {c1} with a {c2} is not rejected by the type guard (execution reached: {e})",
                   replay_code=f"""from stereomolgraph import {c1}, {c2}
a, b = {c1}(), {c2}()
for g in (a, b):
    g.add_atom(0, 'C'); g.add_atom(1, 'O'); g.add_bond(0, 1)
got = (a == b)
print('{c1} == {c2} ->', got)
sys.exit(1 if got else 0)
"""))
        return
    bad = [p for p in paths if not (p.outcome[0] == "ret" and p.outcome[1] is False)]
    rep.add(Ob(name, "proof", DISCHARGED if paths and not bad else FAILED, "pyvc", time.time() - t, detail="" if not bad else f"outcomes {[p.outcome for p in bad][:3]}"))


def tasks():
    return [("ob_cross_class", (a, b)) for a in CLASSES for b in CLASSES if a != b]
