"""Side-car contracts of the public methods of the four graph classes (DESIGN 3.1/3.2).

Each contract is the reference transition of the PROPERTY (the same transcription as spec/refops.py, here
over symbolic views) - `rejected` (C19: must raise, nothing may change), `error` (not listed by C19: if it
raises nothing may change), `ok` (C09: must not raise; every view component of the post-state is the stated
function of the pre-state; the representation invariant is re-established).

A contract is a class with
    args(interp, g, cname)          -> (positional args, kwargs, symbols dict)      symbolic arguments
    rejected(v0, a), error(v0, a)   -> z3 Bool over the pre-state view and the symbols
    spec(v0, a)                     -> {component: function(point...) -> z3 term}  only CHANGED components
The real code is never edited; the contract is keyed by method name and resolved through the MRO.
"""
from __future__ import annotations

import z3

from ..pyvc import heap as H
from ..pyvc.graphmodel import (View, d_atom_centred, d_bond_centred, d_invert, d_mentions, d_slot, sym_descr)
from ..pyvc.heap import (BondS, ChgMember, ChgS, D_ATTR, DescrS, DictRef, KeyTerm, ODescrS, OIntS, ValS, ValTerm, heap_of, mkbond)
from ..pyvc.values import OI

STEREO = ("StereoMolGraph", "StereoCondensedReactionGraph")
REACTION = ("CondensedReactionGraph", "StereoCondensedReactionGraph")
ALL = ("MolGraph", "StereoMolGraph", "CondensedReactionGraph", "StereoCondensedReactionGraph")
FALSE, TRUE = z3.BoolVal(False), z3.BoolVal(True)


def sym_attr_dict(interp, tag):
    """an arbitrary attribute dictionary (e.g. **attr) living at an old reference"""
    h = heap_of(interp)
    r = z3.Int(f"{tag}_ref")
    interp.assume(z3.And(r >= 0, r < h.A0))
    return DictRef(D_ATTR, r), r


class Contract:
    classes = ALL
    mutator = True

    def rejected(self, v, a, cname):
        return FALSE

    def error(self, v, a, cname):
        return FALSE

    def spec(self, v, a, cname):
        return {}

    def extra_pre(self, v, a, cname):
        return TRUE


def A_(name):
    return z3.Int(name)


class add_atom(Contract):
    def args(self, it, g, cname):
        a, t = A_("a"), z3.Const("atype", ValS)
        attr, r = sym_attr_dict(it, "attr")
        return [a, ValTerm(t)], {"**": attr}, {"a": a, "t": t, "attr": r}

    def extra_pre(self, v, s, cname):
        # a python call cannot pass atom_type twice; the ** dict is not one of the graph's own dictionaries
        x = z3.Int("px")
        b = z3.Const("pb", BondS)
        return z3.And(z3.Not(v.h.d_has(D_ATTR, s["attr"], H.K_ATOM_TYPE)),
                      z3.ForAll([x], z3.Implies(v.atom(x), v.aref(x) != s["attr"]), patterns=[v.aref(x)]),
                      z3.ForAll([b], z3.Implies(v.bond(b), v.bref(b) != s["attr"]), patterns=[v.bref(b)]))

    def rejected(self, v, s, cname):
        return z3.Not(H.pt_ok(s["t"]))

    def spec(self, v, s, cname):
        h, a, r = v.h, s["a"], s["attr"]
        return {
            "atom": lambda x: z3.Or(v.atom(x), x == a),
            "attr_has": lambda x, k: z3.If(x == a, z3.Or(k == H.K_ATOM_TYPE, h.d_has(D_ATTR, r, k)), v.attr_has(x, k)),
            "attr_val": lambda x, k: z3.If(x == a, z3.If(k == H.K_ATOM_TYPE, H.pt(s["t"]), h.d_get(D_ATTR, r, k)), v.attr_val(x, k)),
        }


class set_atom_attribute(Contract):
    def args(self, it, g, cname):
        a, k, val = A_("a"), z3.Const("k", H.KeyS), z3.Const("val", ValS)
        return [a, KeyTerm(k), ValTerm(val)], {}, {"a": a, "k": k, "val": val}

    def rejected(self, v, s, cname):
        return z3.Or(z3.Not(v.atom(s["a"])), z3.And(s["k"] == H.K_ATOM_TYPE, z3.Not(H.pt_ok(s["val"]))))

    def spec(self, v, s, cname):
        a, k, val = s["a"], s["k"], s["val"]
        return {
            "attr_has": lambda x, kk: z3.Or(v.attr_has(x, kk), z3.And(x == a, kk == k)),
            "attr_val": lambda x, kk: z3.If(z3.And(x == a, kk == k), z3.If(k == H.K_ATOM_TYPE, H.pt(val), val), v.attr_val(x, kk)),
        }


class delete_atom_attribute(Contract):
    def args(self, it, g, cname):
        a, k = A_("a"), z3.Const("k", H.KeyS)
        return [a, KeyTerm(k)], {}, {"a": a, "k": k}

    def rejected(self, v, s, cname):
        return z3.Or(z3.Not(v.atom(s["a"])), s["k"] == H.K_ATOM_TYPE)

    def error(self, v, s, cname):
        return z3.And(v.atom(s["a"]), s["k"] != H.K_ATOM_TYPE, z3.Not(v.attr_has(s["a"], s["k"])))

    def spec(self, v, s, cname):
        a, k = s["a"], s["k"]
        return {"attr_has": lambda x, kk: z3.And(v.attr_has(x, kk), z3.Not(z3.And(x == a, kk == k)))}


class add_bond(Contract):
    label = None

    def args(self, it, g, cname):
        a1, a2 = A_("a1"), A_("a2")
        attr, r = sym_attr_dict(it, "attr")
        return [a1, a2], {"**": attr}, {"a1": a1, "a2": a2, "attr": r}

    def extra_pre(self, v, s, cname):
        x = z3.Int("px")
        b = z3.Const("pb", BondS)
        pre = [z3.ForAll([x], z3.Implies(v.atom(x), v.aref(x) != s["attr"]), patterns=[v.aref(x)]),
               z3.ForAll([b], z3.Implies(v.bond(b), v.bref(b) != s["attr"]), patterns=[v.bref(b)])]
        if self.label is not None:
            pre.append(z3.Not(v.h.d_has(D_ATTR, s["attr"], H.K_REACTION)))  # python: reaction= given twice is a TypeError
        return z3.And(*pre)

    def rejected(self, v, s, cname):
        r = z3.Or(z3.Not(v.atom(s["a1"])), z3.Not(v.atom(s["a2"])), s["a1"] == s["a2"])
        if cname in REACTION and self.label is None:
            h = v.h
            r = z3.Or(r, z3.And(h.d_has(D_ATTR, s["attr"], H.K_REACTION), z3.Not(ValS.is_VChg(h.d_get(D_ATTR, s["attr"], H.K_REACTION)))))
        return r

    def spec(self, v, s, cname):
        h, r = v.h, s["attr"]
        nb = mkbond(s["a1"], s["a2"])
        has = lambda k: h.d_has(D_ATTR, r, k)  # noqa
        val = lambda k: h.d_get(D_ATTR, r, k)  # noqa
        if self.label is not None:
            lab = ValS.VChg(H.CHG[self.label])
            has = lambda k: z3.Or(h.d_has(D_ATTR, r, k), k == H.K_REACTION)  # noqa
            val = lambda k: z3.If(k == H.K_REACTION, lab, h.d_get(D_ATTR, r, k))  # noqa
        return {
            "bond": lambda b: z3.Or(v.bond(b), b == nb),
            "battr_has": lambda b, k: z3.If(b == nb, has(k), v.battr_has(b, k)),
            "battr_val": lambda b, k: z3.If(b == nb, val(k), v.battr_val(b, k)),
        }


class add_formed_bond(add_bond):
    classes = REACTION
    label = "FORMED"


class add_broken_bond(add_bond):
    classes = REACTION
    label = "BROKEN"


class add_fleeting_bond(add_bond):
    classes = REACTION
    label = "FLEETING"


class remove_bond(Contract):
    def args(self, it, g, cname):
        a1, a2 = A_("a1"), A_("a2")
        return [a1, a2], {}, {"a1": a1, "a2": a2}

    def rejected(self, v, s, cname):
        return z3.Not(v.bond(mkbond(s["a1"], s["a2"])))

    def spec(self, v, s, cname):
        nb = mkbond(s["a1"], s["a2"])
        return {"bond": lambda b: z3.And(v.bond(b), b != nb)}


class set_bond_attribute(Contract):
    def args(self, it, g, cname):
        a1, a2, k, val = A_("a1"), A_("a2"), z3.Const("k", H.KeyS), z3.Const("val", ValS)
        return [a1, a2, KeyTerm(k), ValTerm(val)], {}, {"a1": a1, "a2": a2, "k": k, "val": val}

    def rejected(self, v, s, cname):
        r = z3.Not(v.bond(mkbond(s["a1"], s["a2"])))
        if cname in REACTION:
            r = z3.Or(r, z3.And(s["k"] == H.K_REACTION, z3.Not(ValS.is_VChg(s["val"]))))
        return r

    def spec(self, v, s, cname):
        nb, k, val = mkbond(s["a1"], s["a2"]), s["k"], s["val"]
        return {
            "battr_has": lambda b, kk: z3.Or(v.battr_has(b, kk), z3.And(b == nb, kk == k)),
            "battr_val": lambda b, kk: z3.If(z3.And(b == nb, kk == k), val, v.battr_val(b, kk)),
        }


class delete_bond_attribute(Contract):
    def args(self, it, g, cname):
        a1, a2, k = A_("a1"), A_("a2"), z3.Const("k", H.KeyS)
        return [a1, a2, KeyTerm(k)], {}, {"a1": a1, "a2": a2, "k": k}

    def rejected(self, v, s, cname):
        return z3.Not(v.bond(mkbond(s["a1"], s["a2"])))

    def error(self, v, s, cname):
        nb = mkbond(s["a1"], s["a2"])
        return z3.And(v.bond(nb), z3.Not(v.battr_has(nb, s["k"])))

    def spec(self, v, s, cname):
        nb, k = mkbond(s["a1"], s["a2"]), s["k"]
        return {"battr_has": lambda b, kk: z3.And(v.battr_has(b, kk), z3.Not(z3.And(b == nb, kk == k)))}


class remove_atom(Contract):
    """Removing an atom removes its bonds and every descriptor / stereo change that mentions it."""

    def args(self, it, g, cname):
        a = A_("a")
        return [a], {}, {"a": a}

    def rejected(self, v, s, cname):
        return z3.Not(v.atom(s["a"]))

    def spec(self, v, s, cname):
        a = s["a"]
        sp = {
            "atom": lambda x: z3.And(v.atom(x), x != a),
            "bond": lambda b: z3.And(v.bond(b), BondS.lo(b) != a, BondS.hi(b) != a),
        }
        if cname in STEREO:
            sp["as"] = lambda x: z3.If(z3.And(v.as_has(x), z3.Not(d_mentions(v.as_val(x), a))), osome(v.as_val(x)), ODescrS.DNone)
            sp["bs"] = lambda b: z3.If(z3.And(v.bs_has(b), z3.Not(d_mentions(v.bs_val(b), a))), osome(v.bs_val(b)), ODescrS.DNone)
        if cname == "StereoCondensedReactionGraph":
            def acv(x, c):
                old = ac_view(v, x, c)
                return z3.If(z3.And(ODescrS.is_DSome(old), z3.Not(d_mentions(ODescrS.dd(old), a))), old, ODescrS.DNone)

            def bcv(b, c):
                old = bc_view(v, b, c)
                return z3.If(z3.And(ODescrS.is_DSome(old), z3.Not(d_mentions(ODescrS.dd(old), a))), old, ODescrS.DNone)

            sp["ac"], sp["bc"] = acv, bcv
        return sp


# ---- stereo ------------------------------------------------------------------------------------------------
def osome(d):
    return ODescrS.DSome(d)


def as_view(v, x):
    return z3.If(v.as_has(x), osome(v.as_val(x)), ODescrS.DNone)


def bs_view(v, b):
    return z3.If(v.bs_has(b), osome(v.bs_val(b)), ODescrS.DNone)


def ac_view(v, x, c):
    return z3.If(z3.And(v.ac_has(x), v.ac_slot_has(x, c)), v.ac_slot(x, c), ODescrS.DNone)


def bc_view(v, b, c):
    return z3.If(z3.And(v.bc_has(b), v.bc_slot_has(b, c)), v.bc_slot(b, c), ODescrS.DNone)


class set_atom_stereo(Contract):
    classes = STEREO

    def args(self, it, g, cname):
        d, t = sym_descr(it, "arg", H.ATOM_DESCR)
        return [d], {}, {"d": t}

    def rejected(self, v, s, cname):
        return z3.Not(v.atom(OIntS.ov(d_slot(s["d"], 0))))

    def spec(self, v, s, cname):
        c = OIntS.ov(d_slot(s["d"], 0))
        return {"as": lambda x: z3.If(x == c, osome(s["d"]), as_view(v, x))}


class delete_atom_stereo(Contract):
    classes = STEREO

    def args(self, it, g, cname):
        a = A_("a")
        return [a], {}, {"a": a}

    def rejected(self, v, s, cname):
        return z3.And(z3.Not(v.as_has(s["a"])), z3.Not(v.atom(s["a"])))

    def error(self, v, s, cname):
        return z3.And(z3.Not(v.as_has(s["a"])), v.atom(s["a"]))

    def spec(self, v, s, cname):
        return {"as": lambda x: z3.If(x == s["a"], ODescrS.DNone, as_view(v, x))}


def d_bond_of(d):
    return mkbond(OIntS.ov(d_slot(d, 2)), OIntS.ov(d_slot(d, 3)))


class set_bond_stereo(Contract):
    classes = STEREO

    def args(self, it, g, cname):
        d, t = sym_descr(it, "arg", H.BOND_DESCR)
        return [d], {}, {"d": t}

    def rejected(self, v, s, cname):
        return z3.Not(v.bond(d_bond_of(s["d"])))

    def spec(self, v, s, cname):
        nb = d_bond_of(s["d"])
        return {"bs": lambda b: z3.If(b == nb, osome(s["d"]), bs_view(v, b))}


class delete_bond_stereo(Contract):
    classes = STEREO

    def args(self, it, g, cname):
        a1, a2 = A_("a1"), A_("a2")
        return [(a1, a2)], {}, {"a1": a1, "a2": a2}

    def rejected(self, v, s, cname):
        nb = mkbond(s["a1"], s["a2"])
        return z3.And(z3.Not(v.bs_has(nb)), z3.Not(v.bond(nb)))

    def error(self, v, s, cname):
        nb = mkbond(s["a1"], s["a2"])
        return z3.And(z3.Not(v.bs_has(nb)), v.bond(nb))

    def spec(self, v, s, cname):
        nb = mkbond(s["a1"], s["a2"])
        return {"bs": lambda b: z3.If(b == nb, ODescrS.DNone, bs_view(v, b))}


class _set_change(Contract):
    classes = ("StereoCondensedReactionGraph",)
    atom = True

    def args(self, it, g, cname):
        kw, sym = {}, {}
        for name in ("broken", "fleeting", "formed"):
            present = z3.Bool(f"given_{name}")
            if it.decide(present):
                d, t = sym_descr(it, name, H.ATOM_DESCR if self.atom else H.BOND_DESCR)
                kw[name] = d
                sym[name] = t
            else:
                sym[name] = None
                if it.decide(z3.Bool(f"explicit_none_{name}")):
                    kw[name] = None
        return [], kw, sym

    def centre(self, d):
        return OIntS.ov(d_slot(d, 0)) if self.atom else d_bond_of(d)

    def rejected(self, v, s, cname):
        given = [t for t in (s["broken"], s["fleeting"], s["formed"]) if t is not None]
        if not given:
            return TRUE
        cs = [self.centre(t) for t in given]
        same = z3.And(*[c == cs[0] for c in cs[1:]]) if len(cs) > 1 else TRUE
        known = v.atom(cs[0]) if self.atom else v.bond(cs[0])
        return z3.Not(z3.And(same, known))

    def spec(self, v, s, cname):
        given = {n: t for n, t in (("BROKEN", s["broken"]), ("FLEETING", s["fleeting"]), ("FORMED", s["formed"])) if t is not None}
        if not given:
            return {}
        c0 = self.centre(next(iter(given.values())))

        def slot(c):
            e = ODescrS.DNone
            for n, t in given.items():
                e = z3.If(c == H.CHG[n], osome(t), e)
            return e

        if self.atom:
            return {"ac": lambda x, c: z3.If(x == c0, slot(c), ac_view(v, x, c))}
        return {"bc": lambda b, c: z3.If(b == c0, slot(c), bc_view(v, b, c))}


class set_atom_stereo_change(_set_change):
    atom = True


class set_bond_stereo_change(_set_change):
    atom = False


class _del_change(Contract):
    classes = ("StereoCondensedReactionGraph",)
    atom = True

    def args(self, it, g, cname):
        if self.atom:
            a = A_("a")
            pos, sym = [a], {"key": a}
        else:
            a1, a2 = A_("a1"), A_("a2")
            pos, sym = [(a1, a2)], {"key": mkbond(a1, a2)}
        if it.decide(z3.Bool("whole_entry")):
            sym["c"] = None
            if it.decide(z3.Bool("explicit_none")):
                pos.append(None)
        else:
            for n in ("FORMED", "FLEETING", "BROKEN"):
                if it.decide(z3.Bool(f"c_is_{n}")):
                    pos.append(ChgMember(n))
                    sym["c"] = H.CHG[n]
                    break
            else:
                pos.append(ChgMember("BROKEN"))
                sym["c"] = H.CHG["BROKEN"]
        return pos, {}, sym

    def has(self, v, k):
        return v.ac_has(k) if self.atom else v.bc_has(k)

    def slot_has(self, v, k, c):
        return v.ac_slot_has(k, c) if self.atom else v.bc_slot_has(k, c)

    def known(self, v, k):
        return v.atom(k) if self.atom else v.bond(k)

    def rejected(self, v, s, cname):
        return z3.And(z3.Not(self.has(v, s["key"])), z3.Not(self.known(v, s["key"])))

    def error(self, v, s, cname):
        k = s["key"]
        e = z3.And(z3.Not(self.has(v, k)), self.known(v, k))
        if s["c"] is not None:
            e = z3.Or(e, z3.And(self.has(v, k), z3.Not(self.slot_has(v, k, s["c"]))))
        return e

    def spec(self, v, s, cname):
        k, c0 = s["key"], s["c"]
        view = ac_view if self.atom else bc_view
        comp = "ac" if self.atom else "bc"
        if c0 is None:
            return {comp: lambda x, c: z3.If(x == k, ODescrS.DNone, view(v, x, c))}
        return {comp: lambda x, c: z3.If(z3.And(x == k, c == c0), ODescrS.DNone, view(v, x, c))}


class delete_atom_stereo_change(_del_change):
    atom = True


class delete_bond_stereo_change(_del_change):
    atom = False


# ---- read-only queries (frame: nothing changes, whether they raise or answer) ----------------------------------
class Query(Contract):
    mutator = False


def _q(name, argf, classes=ALL, attr_access=None):
    cls = type(name, (Query,), {"classes": classes, "args": lambda self, it, g, cname: argf(it), "attr_access": attr_access})
    return cls


def _a(it):
    a = A_("a")
    return [a], {}, {"a": a}


def _ak(it):
    a, k = A_("a"), z3.Const("k", H.KeyS)
    return [a, KeyTerm(k)], {}, {"a": a, "k": k}


def _ab(it):
    a1, a2 = A_("a1"), A_("a2")
    return [a1, a2], {}, {"a1": a1, "a2": a2}


def _abk(it):
    a1, a2, k = A_("a1"), A_("a2"), z3.Const("k", H.KeyS)
    return [a1, a2, KeyTerm(k)], {}, {"a1": a1, "a2": a2, "k": k}


def _bond_tuple(it):
    a1, a2 = A_("a1"), A_("a2")
    return [(a1, a2)], {}, {"a1": a1, "a2": a2}


def _a_attrs_list(it):
    a, k = A_("a"), z3.Const("k", H.KeyS)
    return [a, [KeyTerm(k)]], {}, {"a": a, "k": k}


def _none(it):
    return [], {}, {}


QUERIES = {
    "has_atom": _q("has_atom", _a),
    "get_atom_attribute": _q("get_atom_attribute", _ak),
    "get_atom_type": _q("get_atom_type", _a),
    "get_atom_attributes": _q("get_atom_attributes", _a),
    "get_atom_attributes#list": _q("get_atom_attributes", _a_attrs_list),
    "has_bond": _q("has_bond", _ab),
    "get_bond_attribute": _q("get_bond_attribute", _abk),
    "get_bond_attributes": _q("get_bond_attributes", _ab),
    "bonded_to": _q("bonded_to", _a),
    "get_atom_stereo": _q("get_atom_stereo", _a, STEREO),
    "get_bond_stereo": _q("get_bond_stereo", _bond_tuple, STEREO),
    "get_atom_stereo_change": _q("get_atom_stereo_change", _a, ("StereoCondensedReactionGraph",)),
    "get_bond_stereo_change": _q("get_bond_stereo_change", _bond_tuple, ("StereoCondensedReactionGraph",)),
    # properties subscripted with an arbitrary key:  g.neighbors[x]
    "neighbors[]": _q("neighbors", _a, ALL, "int"),
    "atoms_with_attributes[]": _q("atoms_with_attributes", _a, ALL, "int"),
    "bonds_with_attributes[]": _q("bonds_with_attributes", _bond_tuple, ALL, "bond"),
    "atom_stereo[]": _q("atom_stereo", _a, STEREO, "int"),
    "bond_stereo[]": _q("bond_stereo", _bond_tuple, STEREO, "bond"),
    "atom_stereo_changes[]": _q("atom_stereo_changes", _a, ("StereoCondensedReactionGraph",), "int"),
    "bond_stereo_changes[]": _q("bond_stereo_changes", _bond_tuple, ("StereoCondensedReactionGraph",), "bond"),
}

MUTATORS = {c.__name__: c for c in (add_atom, remove_atom, set_atom_attribute, delete_atom_attribute, add_bond, add_formed_bond, add_broken_bond, add_fleeting_bond,
                                    remove_bond, set_bond_attribute, delete_bond_attribute, set_atom_stereo, delete_atom_stereo, set_bond_stereo,
                                    delete_bond_stereo, set_atom_stereo_change, set_bond_stereo_change, delete_atom_stereo_change, delete_bond_stereo_change)}


# ---- C08: the formed / broken / fleeting bond sets are exactly the bonds carrying that change ---------------------------
def _role_query(label):
    from .loop_invariants import LOOPS

    class _Q(Query):
        classes = REACTION
        pid = "C08"
        loop_contracts = LOOPS

        def args(self, it, g, cname):
            return [], {}, {}

        def result_post(self, v0, sym, res, h1):
            b = z3.Const("rb", BondS)
            if not isinstance(res, H.SetRef):
                return [("is-a-set", z3.BoolVal(False))]
            mem = h1.s_has(res.t, res.ref, b)
            is_role = z3.And(v0.bond(b), v0.battr_has(b, H.K_REACTION), v0.battr_val(b, H.K_REACTION) == ValS.VChg(H.CHG[label]))
            return [(f"exactly-the-{label.lower()}-bonds", z3.ForAll([b], z3.Implies(BondS.lo(b) <= BondS.hi(b), mem == is_role))),
                    ("result-is-a-new-set", res.ref >= v0.h.A0)]

    _Q.__name__ = f"get_{label.lower()}_bonds"
    return _Q


ROLE_QUERIES = {f"get_{l.lower()}_bonds": _role_query(l) for l in ("FORMED", "BROKEN", "FLEETING")}
