"""Replay of a failed obligation on the real code.  Run with /verif/.venv/bin/python.
Exits 1 when the violation reproduces on the tree under /repo, 0 otherwise.
obligation: C04/stereodescriptors.py:_StereoMixin.__hash__/Octahedral/p=-1,q=1#path0
equal descriptors, different hash arguments: Octahedral((-2, -6, None, None, None, -8, -1),-1) vs Octahedral((-2, -6, None, -8, None, None, -1),1)
"""
import sys
sys.path.insert(0, '/repo/src')
from stereomolgraph.stereodescriptors import Octahedral
a = Octahedral((-2, -6, None, None, None, -8, -1), -1); b = Octahedral((-2, -6, None, -8, None, None, -1), 1)
# the two descriptors denote the same spatial arrangement according to the oracle group
print(a, b, 'code ==', a == b, 'hash', hash(a), hash(b))
sys.exit(1 if hash(a) != hash(b) else 0)
