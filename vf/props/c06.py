"""C06 - E1 proof obligations: SMG.enantiomer and SCRG.enantiomer against the contract `enantiomer` (vf/contracts/derive_ops.py) with side-car loop
invariants for their four loops (vf/contracts/loop_invariants.py, unbounded), invert() entering through its callee contract, which is itself checked
against the real body for all six descriptor classes; + bounded relational contracts (E3, vf/e3/derive.py: involution, `== enantiomer iff achiral`
against the brute-force isomorphism oracle, edited graphs)."""
import time

from ..core import Report
from ..e3 import derive
from ..par import pmap
from ..pyvc.world import World
from . import e1_derive


def run(tier, seed):
    t0 = time.time()
    rep = Report("C06", tier, seed)
    rep.level = "other"
    for obs, _ in pmap("vf.props.e1_derive", e1_derive.tasks("C06", tier, 10000 if tier == "quick" else 40000)):
        rep.obs.extend(obs)
    derive.run_c06(rep, tier, seed)
    rep.functions = e1_derive.functions(World(), "C06")
    proof = [o for o in rep.obs if o.kind == "proof"]
    e1b = [o for o in rep.obs if o.kind == "bounded" and "/bounded/" not in o.name]
    rep.rule = ("E1: one VC per (class, derivation, symbolic path, clause); E3 scope (DESIGN Appendix B): structured skeleton corpus x element/role/stereo decorations x "
                "the operation's argument space; distinct_nontrivial = distinct base graphs of the E3 part")
    rep.trusted_base = ["pyvc encoding of CPython semantics + symbolic heap (z3 arrays)", "assumed contract of copy.deepcopy (structural copy, every mutable object fresh, modelled as a copy of the heap into a fresh reference block)", "z3 5.1"]
    rep.assumptions = ["loops are verified through side-car invariants (init / generic step / exit, iteration order arbitrary); termination is not proved",
                       "callees are inlined (copy, set_atom_stereo, set_atom_stereo_change, get_atom_stereo_change, ...) except _StereoMixin.invert, which enters through its contract (result = same class and atoms, parity sign flipped) - that contract is discharged separately on the real body",
                       "the second half of C06 (g == g.enantiomer() iff a structure-preserving bijection onto the mirror image exists) is NOT within reach of the contracts: it is decided by the bounded E3 part only",
                       "E3: only the enumerated scope is covered", "descriptor objects are immutable values (no public operation mutates one)"]
    rep.explanation = (f"{len(proof)} unbounded proof obligations, {len(e1b)} bounded-mode VCs, plus the bounded relational contract groups listed in coverage.bounded_groups")
    rep.samples = [o.name for o in (proof + e1b)[:: max(1, (len(proof) + len(e1b)) // 8)]][:8]
    return rep, t0
