"""Oracle symmetry groups of the six descriptor classes, computed from 3-D figures (DESIGN C04).

Independent of PERMUTATION_GROUP / inversion in the repository.  A descriptor tuple t puts ligand
t[j] on vertex j of the figure.  A permutation p is accepted iff an orthogonal Q exists with
Q @ V[p[i]] = V[i] for all i; then t' = t o p (t'[i] = t[p[i]]) denotes the rotated (det Q > 0) or
reflected (det Q < 0) arrangement.  Planar figures: every symmetry is realised both properly and
improperly, so proper == improper as vertex permutations.

The figures fix only what the class docstrings and the perception code (xyz2graph.py) fix:
  Tetrahedral          regular tetrahedron around 0
  SquarePlanar         square, ligands 1-2-3-4 in ring order
  TrigonalBipyramidal  1,2 axial; 3,4,5 equatorial
  Octahedral           trans pairs (1,2), (3,5), (4,6)
  PlanarBond           0,1 on atom 2; 4,5 on atom 3; 0 cis to 4; all in one plane
  AtropBond            same skeleton with the two ends perpendicular (the mirror image of a twisted
                       X2C-CX2 is the opposite twist, so the idealised figure whose improper operations
                       relate the two parities is the 90 degree one; G+ is identical for any twist)
The proper group is normal in the full point group, so the choice among mirror-equivalent vertex
labellings does not change G+ / G-.
"""
from __future__ import annotations

import itertools
import math

import numpy as np

r3 = 3**0.5
_tw = math.radians(90.0)  # perpendicular ends (D2d), as drawn in the class docstring; the proper group is the same D2 for every twist
FIGS = {
    "Tetrahedral": {0: (0, 0, 0), 1: (1, 1, 1), 2: (1, -1, -1), 3: (-1, 1, -1), 4: (-1, -1, 1)},
    "SquarePlanar": {0: (0, 0, 0), 1: (-1, 1, 0), 2: (-1, -1, 0), 3: (1, -1, 0), 4: (1, 1, 0)},
    "TrigonalBipyramidal": {
        0: (0, 0, 0), 1: (0, 0, 1), 2: (0, 0, -1), 3: (1, 0, 0), 4: (-0.5, r3 / 2, 0), 5: (-0.5, -r3 / 2, 0),
    },
    "Octahedral": {
        0: (0, 0, 0), 1: (0, 0, 1), 2: (0, 0, -1), 3: (1, 0, 0), 4: (0, 1, 0), 5: (-1, 0, 0), 6: (0, -1, 0),
    },
    "PlanarBond": {0: (-1.5, 1, 0), 1: (-1.5, -1, 0), 2: (-0.7, 0, 0), 3: (0.7, 0, 0), 4: (1.5, 1, 0), 5: (1.5, -1, 0)},
    "AtropBond": {
        0: (-1.5, math.cos(_tw), math.sin(_tw)), 1: (-1.5, -math.cos(_tw), -math.sin(_tw)),
        2: (-0.7, 0, 0), 3: (0.7, 0, 0), 4: (1.5, 1, 0), 5: (1.5, -1, 0),
    },
}
CHIRAL = {"Tetrahedral": True, "SquarePlanar": False, "TrigonalBipyramidal": True, "Octahedral": True,
          "PlanarBond": False, "AtropBond": True}
PARITIES = {c: ((None, 1, -1) if ch else (None, 0)) for c, ch in CHIRAL.items()}
# positions that are centres (never a placeholder)
CENTRES = {"Tetrahedral": (0,), "SquarePlanar": (0,), "TrigonalBipyramidal": (0,), "Octahedral": (0,),
           "PlanarBond": (2, 3), "AtropBond": (2, 3)}


def sym_perms(V):
    pos = sorted(V)
    X = np.array([V[i] for i in pos], float)
    X = X - X.mean(axis=0)
    prop, improp = set(), set()
    rank = np.linalg.matrix_rank(X, tol=1e-8)
    for p in itertools.permutations(range(len(pos))):
        Y = X[list(p)]
        U, S, Vt = np.linalg.svd(Y.T @ X)
        Q = (U @ Vt).T
        if np.allclose((Q @ Y.T).T, X, atol=1e-8):
            if rank < 3:
                prop.add(p)
                improp.add(p)
            else:
                # also try the improper fit: for rank 3 the fit is unique
                if np.linalg.det(Q) > 0:
                    prop.add(p)
                else:
                    improp.add(p)
        elif rank == 3:
            # Kabsch above returns the best orthogonal map (proper or improper); nothing else to try
            pass
    return prop, improp


_cache = {}


def groups(cname):
    """-> (G+, G-) as sets of index tuples"""
    if cname not in _cache:
        _cache[cname] = sym_perms(FIGS[cname])
    return _cache[cname]


def spec_eq_concrete(cname, s, p, o, q):
    """The property's definition of descriptor equality on concrete tuples."""
    if p is None or q is None:
        return set(s) == set(o)
    Gp, Gm = groups(cname)
    if len(s) != len(o):
        return False
    if p == q:
        G = Gp
    elif p == -q and p != 0:
        G = Gm
    else:
        return False
    return any(tuple(s[g[i]] for i in range(len(s))) == tuple(o) for g in G)
