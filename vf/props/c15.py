"""C15 - bounded relational contracts (E3, see vf/e3/derive.py); E1 obligations are added by the heap engine."""
import time

from ..core import Report
from ..e3 import derive


def run(tier, seed):
    t0 = time.time()
    rep = Report("C15", tier, seed)
    rep.level = "exploration"
    from ..par import pmap
    from . import e1_json

    for obs, _ in pmap("vf.props.e1_json", e1_json.tasks()):
        rep.obs.extend(obs)
    derive.run_c15(rep, tier, seed)
    rep.rule = "E3 scope (DESIGN Appendix B): structured skeleton corpus x element/role/stereo decorations x the operation's argument space; distinct_nontrivial = distinct base graphs"
    rep.assumptions = ["bounded: only the enumerated scope is covered"]
    return rep, t0
