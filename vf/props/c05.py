"""C05 - bounded relational contract (E3, see vf/e3/isohash.py)."""
import time

from ..core import Report
from ..e3 import isohash


def run(tier, seed):
    t0 = time.time()
    rep = Report("C05", tier, seed)
    rep.level = "exploration"
    isohash.run_c05(rep, tier, seed)
    rep.rule = "E3 scope (DESIGN Appendix B); distinct_nontrivial = distinct base graphs"
    rep.assumptions = ["bounded: only the enumerated scope is covered"]
    return rep, t0
