"""E1 obligations on the derivation operations (copy, copy-constructor, relabel_atoms, subgraph, enantiomer):
contracts in vf/contracts/derive_ops.py, VCs from the real AST (vf/pyvc/verify.py:verify_derivation)."""
from __future__ import annotations

from ..contracts import derive_ops as D
from ..core import src_info
from ..pyvc import verify

ALL = ("MolGraph", "StereoMolGraph", "CondensedReactionGraph", "StereoCondensedReactionGraph")

# (derivation, class) -> {"pid": property whose clause names the views carry, "tier": first tier that runs it, "bound": loop bound, "want": clause families}
PLAN = {
    "C10": [("copy", c, "quick", 1, ("view", "wf", "fresh", "source")) for c in ALL] + [("copy_constructor", c, "quick", 1, ("view", "wf", "fresh", "source")) for c in ALL]
           # comprehensions of MolGraph.subgraph / relabel_atoms summarised on a generic element (vf/pyvc/summarise.py): argument and graph of any size
           + [("subgraph(any size)", c, "quick", 1, ("fresh", "source")) for c in ("MolGraph", "CondensedReactionGraph")]
           + [("subgraph(any size)", "StereoMolGraph", "quick", 1, ("fresh", "source"), 2), ("subgraph(any size)", "StereoCondensedReactionGraph", "quick", 1, ("fresh", "source"), 4)]
           + [("relabel_atoms(copy=True)", c, "quick", 1, ("fresh", "source")) for c in ("MolGraph", "CondensedReactionGraph")]
           + [("relabel_atoms(copy=True)", "StereoMolGraph", "quick", 1, ("fresh", "source"), 2), ("relabel_atoms(copy=True)", "StereoCondensedReactionGraph", "quick", 1, ("fresh", "source"), 4)]
           # the argument given as a one-shot iterator (bounded mode: <= 1 element)
           + [("subgraph", c, "quick", 1, ("fresh", "source")) for c in ("MolGraph", "CondensedReactionGraph")]
           + [("enantiomer", "StereoMolGraph", "quick", 1, ("fresh", "source")), ("enantiomer", "StereoCondensedReactionGraph", "quick", 1, ("fresh", "source"), 4)]
           + [("compose(g, h)", c, "quick", 1, ("fresh",), 6) for c in ("MolGraph", "CondensedReactionGraph")]
           + [("reactant", "CondensedReactionGraph", "quick", 1, ("fresh", "source"), 2), ("product", "CondensedReactionGraph", "quick", 1, ("fresh", "source"), 2)]
           + [("reactant(stereo)", "StereoCondensedReactionGraph", "quick", 1, ("fresh", "source"), 4), ("product(stereo)", "StereoCondensedReactionGraph", "quick", 1, ("fresh", "source"), 4)]
           + [("reverse_reaction", "CondensedReactionGraph", "quick", 1, ("fresh", "source"), 1), ("reverse_reaction", "StereoCondensedReactionGraph", "quick", 1, ("fresh", "source"), 3)],
    "C17": [("subgraph(any size)", c, "quick", 1, ("view", "wf")) for c in ("MolGraph", "CondensedReactionGraph")]
           # compose of two arbitrary graphs (later wins): three loops per graph under invariants
           + [("compose(g, h)", c, "quick", 1, ("view", "wf", "source"), 6) for c in ("MolGraph", "CondensedReactionGraph")]
           # the stereo classes add loops over the descriptor / stereo-change tables: side-car invariants, one task per loop
           + [("subgraph(any size)", "StereoMolGraph", "quick", 1, ("view", "wf"), 2), ("subgraph(any size)", "StereoCondensedReactionGraph", "quick", 1, ("view", "wf"), 4)]
           + [("subgraph", c, "quick", 1, ("view", "wf")) for c in ("MolGraph", "CondensedReactionGraph")]
           + [("subgraph", c, "thorough", 2, ("view", "wf")) for c in ("MolGraph",)],
    # loops of SMG.enantiomer carry side-car invariants (vf/contracts/loop_invariants.py) -> unbounded; invert() enters through its contract
    # 7th field: number of loops under invariant -> one task per loop (init + generic step) and one for the loop-free remainder
    "C06": [("enantiomer", "StereoMolGraph", "quick", 1, ("view", "wf", "fresh", "source")),
            ("enantiomer", "StereoCondensedReactionGraph", "quick", 1, ("view", "wf", "fresh", "source"), 4)],
    # reverse_reaction: CRG one loop over the bonds, SCRG two more over the stereo-change tables of the copy
    "C08": [("reactant", "CondensedReactionGraph", "quick", 1, ("view", "wf", "source"), 2), ("product", "CondensedReactionGraph", "quick", 1, ("view", "wf", "source"), 2),
            ("reactant(stereo)", "StereoCondensedReactionGraph", "quick", 1, ("view", "wf", "source"), 4), ("product(stereo)", "StereoCondensedReactionGraph", "quick", 1, ("view", "wf", "source"), 4),
            ("reverse_reaction", "CondensedReactionGraph", "quick", 1, ("view", "wf", "source"), 1),
            ("reverse_reaction", "StereoCondensedReactionGraph", "quick", 1, ("view", "wf", "source"), 3)],
    "C11": [("relabel_atoms(copy=True)", c, "quick", 1, ("view", "wf", "source")) for c in ("MolGraph", "CondensedReactionGraph")]
           + [("relabel_atoms(copy=True)", "StereoMolGraph", "quick", 1, ("view", "wf", "source"), 2),
              ("relabel_atoms(copy=True)", "StereoCondensedReactionGraph", "quick", 1, ("view", "wf", "source"), 4)]
           # in place: the graph itself gets the same renamed views (same contract, result is self)
           + [("relabel_atoms(copy=False)", c, "quick", 1, ("view", "wf")) for c in ("MolGraph", "CondensedReactionGraph")]
           + [("relabel_atoms(copy=False)", "StereoMolGraph", "quick", 1, ("view", "wf"), 2), ("relabel_atoms(copy=False)", "StereoCondensedReactionGraph", "quick", 1, ("view", "wf"), 4)],
}


SHARDS = 4  # worker processes per loop of a stereo reaction-graph derivation (each enumerates the paths, solves every 4th)


def ob_derivation(rep, world, dname, cname, pid, bound, want, timeout, focus=None, primary=True, shard=None):
    from ..contracts.loop_invariants import LOOPS, SUMMARISE

    # the bounded variant of subgraph (one-shot iterator argument) keeps the unrolling; everything else uses the summarised comprehensions
    verify.verify_derivation(rep.obs, world, cname, dname, D.DERIVATIONS[dname](), pid, timeout=timeout, iter_bound=bound, want=want, loop_contracts=LOOPS,
                             callee_contracts=verify.DESCR_CONTRACTS, focus_loop=focus, summarise=None if dname == "subgraph" else SUMMARISE, shard=shard)
    # keep the clauses that belong to this property (freshness clauses are named C10/...)
    rep.obs[:] = [o for o in rep.obs if o.name.startswith(pid + "/") or o.name.startswith("E1/")]
    if not primary:
        # a secondary clause-family task of the same path: the path-level obligations are reported by the primary task
        fams = ("/result-view/", "/result-wf/", "/fresh/", "/source-untouched")
        rep.obs[:] = [o for o in rep.obs if any(f in o.name for f in fams) or o.name.startswith("E1/")]


def ob_invert(rep, world, pid, timeout):
    """callee contract used above: the real _StereoMixin.invert against d_invert, for every descriptor class"""
    verify.verify_invert(rep.obs, world, pid, timeout)


def ob_descr_init(rep, world, pid, timeout):
    """constructor contract behind `d.__class__(image of d.atoms, d.parity)` (relabelling loops)"""
    verify.verify_descr_init(rep.obs, world, pid, timeout)


def tasks(pid, tier, timeout):
    out = []
    if pid == "C06":
        out.append(("ob_invert", (pid, timeout)))
    if pid == "C11":
        out.append(("ob_descr_init", (pid, timeout)))
    for dname, cname, first, bound, want, *nl in PLAN.get(pid, []):
        if first == "thorough" and tier == "quick":
            continue
        if nl:
            for focus in range(nl[0] + 1):
                if pid == "C10" and focus > 0:
                    continue  # the loop obligations are reported once, under the property that owns the derivation
                if focus == 0 and len(want) > 1:
                    # the loop-free remainder carries the result clauses: one task per clause family (they are independent)
                    for j, fam in enumerate(want):
                        out.append(("ob_derivation", (dname, cname, pid, bound, (fam,), timeout, focus, j == 0)))
                elif focus > 0 and cname == "StereoCondensedReactionGraph":
                    for k in range(SHARDS):
                        out.append(("ob_derivation", (dname, cname, pid, bound, (), timeout, focus, True, (k, SHARDS))))
                else:
                    out.append(("ob_derivation", (dname, cname, pid, bound, want if focus == 0 else (), timeout, focus)))
        else:
            out.append(("ob_derivation", (dname, cname, pid, bound, want, timeout)))
    # the pool hands tasks out in order: the long ones (stereo reaction graphs, then stereo graphs) first
    out.sort(key=lambda t: 0 if "StereoCondensedReactionGraph" in t[1] else (1 if "StereoMolGraph" in t[1] else 2))
    return out


def functions(world, pid):
    seen, out = set(), []
    names = {"copy": "copy", "copy_constructor": "__init__", "subgraph": "subgraph", "subgraph(any size)": "subgraph", "enantiomer": "enantiomer", "relabel_atoms(copy=True)": "relabel_atoms", "relabel_atoms(copy=False)": "relabel_atoms", "reverse_reaction": "reverse_reaction", "reactant": "reactant", "product": "product", "reactant(stereo)": "reactant", "product(stereo)": "product", "compose(g, h)": "compose"}
    if pid == "C06":
        out.append(src_info("stereodescriptors.py", "_StereoMixin.invert"))
    if pid == "C11":
        out.append(src_info("stereodescriptors.py", "_StereoMixin.__init__"))
    for dname, cname, *_ in PLAN.get(pid, []):
        dc, m = world.cls(cname).find(names[dname])
        if dc is not None:
            key = (dc.module.relpath, f"{dc.name}.{names[dname]}")
            if key not in seen:
                seen.add(key)
                out.append(src_info(*key))
    return out
