"""Brute-force oracle for graph isomorphism on the reference model: independent of VF2++, of colour
refinement and of PERMUTATION_GROUP (descriptor equality comes from the oracle groups)."""
from __future__ import annotations

from .refmodel import Ref, descr_eq, descr_map


def _stereo_ok(a: Ref, b: Ref, f, stereo=True, stereo_change=True):
    if stereo:
        if {f[x] for x in a.atom_stereo} != set(b.atom_stereo):
            return False
        for x, d in a.atom_stereo.items():
            if not descr_eq(descr_map(d, f.get), b.atom_stereo[f[x]]):
                return False
        fb = lambda bond: frozenset(f[x] for x in bond)  # noqa
        if {fb(x) for x in a.bond_stereo} != set(b.bond_stereo):
            return False
        for x, d in a.bond_stereo.items():
            if not descr_eq(descr_map(d, f.get), b.bond_stereo[fb(x)]):
                return False
    if stereo_change:
        fb = lambda bond: frozenset(f[x] for x in bond)  # noqa
        ac_a = {x: v for x, v in a.atom_changes.items() if v}
        ac_b = {x: v for x, v in b.atom_changes.items() if v}
        if {f[x] for x in ac_a} != set(ac_b):
            return False
        for x, v in ac_a.items():
            w = ac_b[f[x]]
            if set(v) != set(w):
                return False
            for c, d in v.items():
                if not descr_eq(descr_map(d, f.get), w[c]):
                    return False
        bc_a = {x: v for x, v in a.bond_changes.items() if v}
        bc_b = {x: v for x, v in b.bond_changes.items() if v}
        if {fb(x) for x in bc_a} != set(bc_b):
            return False
        for x, v in bc_a.items():
            w = bc_b[fb(x)]
            if set(v) != set(w):
                return False
            for c, d in v.items():
                if not descr_eq(descr_map(d, f.get), w[c]):
                    return False
    return True


def isomorphisms(a: Ref, b: Ref, stereo=True, stereo_change=True, roles=True, labels=None, limit=None):
    """Yield every bijection atoms(a)->atoms(b) preserving elements (or caller labels), bonds, roles,
    descriptors (if stereo) and stereo changes (if stereo_change)."""
    A, B = list(a.atoms), list(b.atoms)
    if len(A) != len(B) or len(a.bonds) != len(b.bonds):
        return
    la = (lambda x: a.atoms[x]["atom_type"]) if labels is None else (lambda x: labels[0][x])
    lb = (lambda x: b.atoms[x]["atom_type"]) if labels is None else (lambda x: labels[1][x])
    na = {x: a.nbr(x) for x in A}
    nb = {x: b.nbr(x) for x in B}
    # order: by connectivity to already placed atoms (simple BFS order) to prune early
    order, seen = [], set()
    for s in sorted(A, key=lambda x: -len(na[x])):
        if s in seen:
            continue
        queue = [s]
        seen.add(s)
        while queue:
            x = queue.pop(0)
            order.append(x)
            for y in sorted(na[x], key=lambda y: -len(na[y])):
                if y not in seen:
                    seen.add(y)
                    queue.append(y)
    f, used = {}, set()
    count = [0]

    def rec(i):
        if limit is not None and count[0] >= limit:
            return
        if i == len(order):
            if _stereo_ok(a, b, f, stereo, stereo_change):
                count[0] += 1
                yield dict(f)
            return
        x = order[i]
        for y in B:
            if y in used or la(x) != lb(y) or len(na[x]) != len(nb[y]):
                continue
            ok = True
            for z in na[x]:
                if z in f:
                    if f[z] not in nb[y]:
                        ok = False
                        break
                    if roles and a.role(frozenset((x, z))) != b.role(frozenset((y, f[z]))):
                        ok = False
                        break
            if ok:
                # non-neighbours must stay non-neighbours
                for z, fz in f.items():
                    if z not in na[x] and fz in nb[y]:
                        ok = False
                        break
            if not ok:
                continue
            f[x] = y
            used.add(y)
            yield from rec(i + 1)
            del f[x]
            used.discard(y)

    yield from rec(0)


def isomorphic(a: Ref, b: Ref, **kw):
    if a.kind != b.kind:
        return False
    for _ in isomorphisms(a, b, limit=1, **kw):
        return True
    return False
