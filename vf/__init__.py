"""vf - contract-based deductive verification machinery for StereoMolGraph (see /verif/DESIGN.md)."""
import os

REPO = os.environ.get("VF_REPO", "/repo")
SRC = os.path.join(REPO, "src", "stereomolgraph")
VERIF = os.path.dirname(os.path.dirname(os.path.abspath(__file__)))
